#!/bin/sh
# Re-run every registered quick check against /repo and rewrite evidence/*.json
cd "$(dirname "$0")"
rc=0
for p in C01 C04 C09 C14 C15; do
  ./check $p quick 2>&1 | grep -v "conda.cli" | grep -v "^KNOWN-FINDING" | tail -2 || rc=1
done
exit $rc
