#!/usr/bin/env python3
"""Regenerates MANIFEST.json from one place so it is always schema-valid."""
import json, sys

BASELINE = ("cd /repo && env -u SYMMRAY_VERIF /venv/bin/python -m pytest -ra -q -p no:cacheprovider "
            "--timeout=900 --continue-on-collection-errors")

NA = {
 "C02": "single call is a pure function of (a, b, axes, mode): no schedule, fault, clock or history in the statement; the hidden state that could reach it (fuse cache, default mode) is decided under C15",
 "C03": "element-for-element agreement of one call with a dense graded calculation is a statement about inputs; lazy-sign unobservability is C09 and route independence is C04",
 "C05": "element placement and invertibility are properties of single calls / a fixed round trip; the only stateful clause (fuse cache on/off) is decided under C15",
 "C06": "equivalence of code paths selected by an explicit argument is a pure input-output statement; the global default consulted by mode=None is covered by C15",
 "C07": "pure function of (array, shape); the memo on the axis-matching routine is covered by C15's history simulation",
 "C08": "pure; equivalence of three call forms on the same arguments has nothing to schedule or crash",
 "C10": "algebraic identities of single calls on given inputs; the 'every contraction route' clause is route independence, decided by C04",
 "C11": "pure numerical linear algebra on one matrix; the only fault-handling path (LAPACK failure -> scipy) cannot run here (no scipy) and is outside the statement",
 "C12": "pure comparison of one call with a dense computation; no state survives a call",
 "C13": "pure function of (matrix, cutoff, mode, max_bond, absorb); its memo is keyed on its full arguments and covered by C15",
 "C16": "constructors are pure functions of their arguments; no state, schedule or fault",
 "C17": "finite algebra and exact enumeration: exhaustive enumeration is model checking, not simulation; there are no dynamics to simulate",
 "C18": "pure symbolic computation (signed sort over operator strings); nothing to interleave or crash",
 "C19": "pure fold over an edge list; half of the helpers need quimb which is absent",
 "C20": "dtype of a result is a function of the arguments of the call that produced it; no history, schedule or fault in the statement",
}

CHECKS = json.load(open("checks.json")) if len(sys.argv) < 2 else json.load(open(sys.argv[1]))

man = {
 "version": 1,
 "setup_cmd": "/venv/bin/python -c \"import numpy, autoray, symmray, sys; assert symmray.__file__.startswith('/repo/'), symmray.__file__\"",
 "hooks": {
   "guard": "SYMMRAY_VERIF",
   "enable": "no source hooks are needed: every seam is a public function, a module global read at call time, or an interpreter facility (sys.settrace / sys.monitoring); checks import symmray straight from /repo's working tree",
   "baseline_off_cmd": BASELINE,
   "source_commits": [],
   "add_only": True,
 },
 "engines": [
   {"name": "symsim", "path": "symsim/", "serves_properties": [c["property_id"] for c in CHECKS],
    "kind_free_text": "deterministic simulation: one seed decides every generated operation, cache perturbation, sign flush, crash line, thread pre-emption and contraction route; independent auditors/snapshots as oracles; ddmin-minimised replay files"},
 ],
 "checks": CHECKS,
 "notes": "Technique family: deterministic simulation with fault injection. See DESIGN.md. Properties not about hidden state, histories, schedules or faults are listed under not_applicable.",
 "not_applicable": [{"property_id": k, "reason": v} for k, v in sorted(NA.items()) if k not in {c["property_id"] for c in CHECKS}],
}
json.dump(man, open("MANIFEST.json", "w"), indent=1)
print("wrote MANIFEST.json with", len(CHECKS), "checks and", len(man["not_applicable"]), "n/a")
