"""C14 — operations never modify their operands unless asked to.

History simulation with deep snapshots of the whole heap around every step,
in-place/out-of-place twins on memory-disjoint clones, and crash injection
(F3) into out-of-place calls. F1 cache perturbation and F2 sign flushes are
injected between steps; F7 knobs diversify how each call is made.
"""

import collections

from .. import core, ops, inject, snap as S
from ..core import Violation, HarnessError, SimCrash, AC
from ..engine import EngineBase, State


class C14(EngineBase):
    prop = "C14"
    name = "c14"

    def make_config(self, streams, tier):
        r = streams.get("config")
        crash_batch = r.random() < 0.4
        return {
            "maxsize": r.choice(inject.CACHE_SIZES),
            "maxsectors": r.choice(inject.CACHE_SECTORS[1:]),
            "sparsity": r.choice([0.0, 0.15, 0.4]),
            "p_inplace": r.choice([0.15, 0.3, 0.5]),
            "p_crash": r.choice([0.3, 0.6]) if crash_batch else 0.0,
            "p_cache": r.choice([0.0, 0.1, 0.3]),
            "p_flush": r.choice([0.0, 0.1, 0.3]),
            "kinds": r.choice([["A", "F"], ["F"], ["F"], ["A"]]),
            "syms": r.choice([["Z2", "U1", "Z2Z2", "U1U1"], ["Z2"], ["U1"],
                              ["Z2Z2"], ["U1U1"], ["Z2", "U1"]]),
            "n_macro": r.choice([8, 12, 18]) if tier == "quick" else r.choice([12, 20, 30]),
            "wseed": r.randrange(2**31),
            "max_charges": r.choice([3, 3, 3, 4, 5]),
            "max_size": r.choice([3, 3, 3, 4]),
            "p_ctor_phases": r.choice([0.0, 0.0, 0.15]),
            # thorough: some calls are crashed at *every* line, not one
            "p_all_lines": (0.15 if tier == "thorough" and crash_batch else 0.0),
            # knob: the library's SYMMRAY_DEBUG self-checks switched on for the
            # whole run (they must not touch operands either)
            "debug": r.random() < 0.1,
        }

    def start(self, config):
        core.world_reset(config["maxsize"], config["maxsectors"],
                         debug=bool(config.get("debug", False)))
        st = State()
        st.config = config
        st.heap = {}
        st.ctx = None
        st.libalias = {}
        return st

    # ------------------------------------------------------------ generate
    def gen_macro(self, st, rng):
        cfg = st.config
        if st.ctx is None:
            st.ctx = ops.Ctx(rng, kinds=tuple(cfg["kinds"]), syms=tuple(cfg["syms"]),
                             p_inplace=cfg["p_inplace"], sparsity=cfg["sparsity"],
                             max_charges=cfg.get("max_charges", 3), max_size=cfg.get("max_size", 3))
            st.ctx.p_ctor_phases = cfg.get("p_ctor_phases", 0.0)
            st.ctx.nonfinite = True
            import random
            st.ctx.weights = ops.swarm_weights(random.Random(cfg["wseed"]))
        steps = []
        if rng.random() < cfg["p_cache"]:
            steps.append({"op": "@cache", "a": inject.gen_cache_event(rng)})
        fnames = ops.names_of(st.heap, "F")
        if fnames and rng.random() < cfg["p_flush"]:
            k = rng.randint(1, len(fnames))
            steps.append({"op": "@flush", "in": rng.sample(fnames, k)})
        new = ops.gen_steps(st.ctx, st.heap)
        for s in new:
            if (cfg["p_crash"] and not ops.is_inplace(s)
                    and s["op"] not in ("new", "newvec", "del")
                    and rng.random() < cfg["p_crash"]):
                s["crash"] = rng.random()
                if rng.random() < cfg.get("p_all_lines", 0.0):
                    s["crash_all"] = True
        return steps + new

    # ------------------------------------------------------------- execute
    def _snap_heap(self, heap):
        return {n: S.snap(v) for n, v in heap.items()
                if S.kind_of(v) in "AFV"}

    def _compare_heap(self, st, before, step, skip_ids=(), what="out-of-place", force_names=()):
        """Every snapshotted value must be identical to its snapshot."""
        op = step["op"]
        operands = set(step.get("in", []))
        for n, s0 in before.items():
            v = st.heap.get(n)
            if v is None or (id(v) in skip_ids and n not in force_names):
                continue
            if n in force_names:
                s1 = S.snap(v)
                if s1 != s0:
                    src = st.libalias.get(n) or next(
                        (st.libalias[m] for m in st.libalias if st.heap.get(m) is v), "?")
                    self.report(st, "operand-unchanged", src,
                                f"{n} changed in {S.diff_field(s0, s1)} by the in-place {op} requested on "
                                f"{step['in'][0]}: the out-of-place {src} had returned its operand itself",
                                ["alias-returned"])
                continue
            s1 = S.snap(v)
            if s1 != s0:
                field = S.diff_field(s0, s1)
                oracle = "operand-unchanged" if n in operands else "bystander-unchanged"
                tags = [what, field]
                if S.kind_of(v) == "F":
                    tags.append("fermionic")
                self.report(st, oracle, op, f"{what}: {n} changed in {field}: "
                            + str(S.describe_diff(s0, s1)), tags)

    def exec_step(self, st, step):
        heap = st.heap
        op = step["op"]
        if op == "@cache":
            tag = inject.apply_cache_event(step["a"], heap)
            if tag:
                st.stats["fault.cache." + tag] += 1
            st.log.add("@cache", step["a"])
            return
        if op == "@flush":
            before = self._snap_heap(heap)
            targets = [heap[n] for n in step["in"] if n in heap]
            pend = sum(1 for v in targets if S.has_pending(v))
            try:
                inject.flush(targets)
            except HarnessError:
                raise
            except Exception as e:  # noqa: BLE001 - e.g. boolean blocks carrying signs
                st.stats["step.flush_raised"] += 1
                for n in [n for n, v in heap.items() if any(v is t for t in targets)]:
                    del heap[n]
                before = {n: s for n, s in before.items() if n in heap}
                st.log.add("@flush-raised", type(e).__name__)
            if pend:
                st.stats["fault.flush"] += 1
            # a flush is an in-place request on its targets only
            self._compare_heap(st, before, step, skip_ids={id(v) for v in targets},
                               what="flush")
            st.log.add("@flush", step["in"])
            return
        if any(n not in heap for n in step.get("in", [])):
            st.stats["step.skipped"] += 1
            return
        if op == "del":
            ops.bind(step, heap, None)
            return

        vals = [heap[n] for n in step.get("in", [])]
        if any(S.has_pending(v) for v in vals):
            st.stats["reach.pending_operand"] += 1
        if len(set(map(id, vals))) < len(vals):
            st.stats["reach.aliased_operands"] += 1
        if any(S.shares_memory(v, w) for v in vals if S.kind_of(v) in "AF"
               for n, w in heap.items()
               if w is not v and S.kind_of(w) in "AF"):
            st.stats["reach.operand_shares_memory"] += 1

        before = self._snap_heap(heap)
        inplace = ops.is_inplace(step)

        if op == "align_inplace":
            self._exec_align_inplace(st, step, before)
        elif inplace:
            self._exec_inplace(st, step, before)
        elif "crash" in step:
            self._exec_crash(st, step, before)
        else:
            try:
                res = ops.run_step(step, heap)
            except HarnessError:
                raise
            except Exception as e:  # noqa: BLE001
                st.stats["step.raised"] += 1
                st.log.add("raised", [op, type(e).__name__])
                self._compare_heap(st, before, step, what="raised")
                return
            st.stats["step.ok"] += 1
            st.stats["op." + op] += 1
            self._compare_heap(st, before, step)
            # an out-of-place call that hands back one of its operands: the
            # two names now denote one object, remembered for later in-place
            # requests on either (which must not reach the other)
            vals_ = res if isinstance(res, tuple) else (res,)
            for o_, v_ in zip(step.get("out", []), vals_):
                if S.kind_of(v_) in "AFV" and any(v_ is heap.get(n_) for n_ in step.get("in", [])):
                    st.libalias[o_] = op
                    st.stats["reach.result_is_operand"] += 1
            ops.bind(step, heap, res)
            st.log.add("ok", [op, S.structure(res) if S.kind_of(res) in "AF" else S.kind_of(res)])

    def _exec_inplace(self, st, step, before):
        heap = st.heap
        op = step["op"]
        target = heap[step["in"][0]]
        twin = ops.twin_of(step)
        expected = None
        twin_exc = None
        if twin is not None:
            # the same call, out of place, on a memory-disjoint clone world
            cl = {}
            for n in step["in"]:
                if n not in cl:
                    cl[n] = S.clone(heap[n])
            try:
                expected = ops.run_step(twin, cl)
            except HarnessError:
                raise
            except Exception as e:  # noqa: BLE001
                twin_exc = e
        try:
            res = ops.run_step(step, heap)
        except HarnessError:
            raise
        except Exception as e:  # noqa: BLE001
            st.stats["step.raised"] += 1
            st.log.add("raised-inplace", [op, type(e).__name__])
            # state of a target whose in-place op failed is not claimed
            for n in [n for n, v in heap.items() if v is target]:
                del heap[n]
            before = {n: s for n, s in before.items() if n in heap}
            self._compare_heap(st, before, step, what="raised-inplace")
            if twin is not None and twin_exc is None and S.kind_of(expected) in "AFV":
                # "in place, exactly the value it would have returned out of
                # place": the out-of-place form returns, the in-place form raises
                self.report(st, "inplace-equals-outofplace", op,
                            f"out-of-place form returns a value but the in-place form raised "
                            f"{type(e).__name__}: {str(e)[:100]}", ["in-place", "raise-mismatch"])
            return
        st.stats["step.ok"] += 1
        st.stats["op." + op + ".inplace"] += 1
        st.stats["reach.inplace"] += 1
        tname = step["in"][0]
        same = [n for n, v in heap.items() if v is target and n != tname]
        force = set(same) if any(n in st.libalias for n in same + [tname]) else set()
        self._compare_heap(st, before, step, skip_ids={id(target)}, what="in-place", force_names=force)
        if twin is not None and twin_exc is not None:
            # ... and the other way round: no value out of place, one in place
            self.report(st, "inplace-equals-outofplace", op,
                        f"out-of-place form raised {type(twin_exc).__name__}: {str(twin_exc)[:100]} "
                        f"but the in-place form succeeded", ["in-place", "raise-mismatch"])
        if twin is not None and twin_exc is None and S.kind_of(expected) in "AFV":
            # the statement is about the value found in place; what the call
            # returns (self, by convention) is not part of it
            st.stats["reach.inplace_twin"] += 1
            s_in = S.snap(target)
            s_out = S.snap(expected)
            if s_in != s_out:
                field = S.diff_field(s_out, s_in)
                tags = ["in-place", field]
                self.report(st, "inplace-equals-outofplace", op,
                            f"in-place differs from out-of-place in {field}: "
                            + str(S.describe_diff(s_out, s_in)), tags)
        if S.kind_of(res) not in "AFV":
            res = target
        ops.bind(step, heap, res)
        st.log.add("ok-inplace", [op, S.structure(res) if S.kind_of(res) in "AF" else S.kind_of(res)])

    def _exec_align_inplace(self, st, step, before):
        """drop_misaligned_sectors(a, b, ..., inplace=True): both arguments
        are targets; in place they must become what the out-of-place call
        (align_axes) returns, and nothing else may change."""
        heap = st.heap
        op = step["op"]
        na, nb = step["in"]
        ta, tb = heap[na], heap[nb]
        cl = {na: S.clone(ta), nb: S.clone(tb)}
        twin = {"op": "align_axes", "in": [na, nb], "out": list(step["out"]),
                "a": {"axes": step["a"]["axes"]}}
        expected = None
        try:
            expected = ops.run_step(twin, cl)
        except HarnessError:
            raise
        except Exception:  # noqa: BLE001
            expected = None
        try:
            res = ops.run_step(step, heap)
        except HarnessError:
            raise
        except Exception as e:  # noqa: BLE001
            st.stats["step.raised"] += 1
            st.log.add("raised-inplace", [op, type(e).__name__])
            for n in [n for n, v in heap.items() if v is ta or v is tb]:
                del heap[n]
            before = {n: s_ for n, s_ in before.items() if n in heap}
            self._compare_heap(st, before, step, what="raised-inplace")
            return
        st.stats["step.ok"] += 1
        st.stats["op." + op + ".inplace"] += 1
        st.stats["reach.inplace"] += 1
        self._compare_heap(st, before, step, skip_ids={id(ta), id(tb)}, what="in-place")
        if expected is not None and len(expected) == 2:
            st.stats["reach.inplace_twin"] += 1
            for tgt, exp, nm in ((ta, expected[0], "first"), (tb, expected[1], "second")):
                s_in, s_out = S.snap(tgt), S.snap(exp)
                if s_in != s_out:
                    field = S.diff_field(s_out, s_in)
                    self.report(st, "inplace-equals-outofplace", op,
                                f"{nm} argument in place differs from out-of-place in {field}: "
                                + str(S.describe_diff(s_out, s_in)), ["in-place", field])
        ops.bind(step, heap, res)
        st.log.add("ok-inplace", [op, "pair"])

    def _exec_crash(self, st, step, before):
        heap = st.heap
        op = step["op"]
        # dry run on clones, with cold lru caches and the fuse cache restored
        # afterwards, so the armed line count refers to the very same execution
        saved = collections.OrderedDict(core.CACHE._fuseinfos)
        counters = core.cache_counters()
        core.clear_lru()
        cl = {}
        for n in step["in"]:
            if n not in cl:
                cl[n] = S.clone(heap[n])
        total, _, _ = inject.run_counted(lambda: ops.run_step(step, cl))
        core.CACHE._fuseinfos.clear()
        core.CACHE._fuseinfos.update(saved)
        core.CACHE._fi_hit, core.CACHE._fi_missed, core.CACHE._fi_missed_too_long = counters
        core.clear_lru()
        if step.get("crash_all") and "crash_n" not in step and total:
            # enumerate every crash line of this call; the first line at which
            # an operand is found modified is recorded as the concrete point
            for n in range(1, min(total, 1500) + 1):
                core.CACHE._fuseinfos.clear()
                core.CACHE._fuseinfos.update(saved)
                core.clear_lru()
                fired, _, exc = inject.run_crashing(lambda: ops.run_step(step, heap), n)
                if isinstance(exc, HarnessError):
                    raise exc
                if fired is None:
                    break
                st.stats["fault.crash"] += 1
                st.stats["fault.crash_enumerated"] += 1
                try:
                    self._compare_heap(st, before, step, what="crash")
                except Violation:
                    step["crash_n"] = n
                    step.pop("crash_all", None)
                    raise
            core.CACHE._fuseinfos.clear()
            core.CACHE._fuseinfos.update(saved)
            core.clear_lru()
            step.pop("crash_all", None)
        if "crash_n" not in step:
            step["crash_n"] = 1 + int(step["crash"] * total) if total else 0
        n = step["crash_n"]
        fired, res, exc = inject.run_crashing(lambda: ops.run_step(step, heap), n)
        if isinstance(exc, HarnessError):
            raise exc
        if fired is not None:
            st.stats["fault.crash"] += 1
            st.stats["crashsite." + fired[1]] += 1
            st.log.add("crash", [op, list(fired)])
            self._compare_heap(st, before, step, what="crash")
            return
        if exc is not None:
            st.stats["step.raised"] += 1
            st.log.add("raised", [op, type(exc).__name__])
            self._compare_heap(st, before, step, what="raised")
            return
        st.stats["step.ok"] += 1
        st.stats["op." + op] += 1
        self._compare_heap(st, before, step)
        ops.bind(step, heap, res)
        st.log.add("ok", [op, S.kind_of(res)])
