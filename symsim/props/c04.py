"""C04 — a fermionic network's value does not depend on how it is contracted.

The "tasks" are the pending bonds of a small tensor network; a seeded route
scheduler decides which pair is contracted next, in which operand order,
listing the axis pairs in which order, over all or only some of the shared
bonds (the rest later by single-array einsum on the intermediate), after
which fermionic transposes, in which contraction mode and with which sign
flushes. Every route must converge to the same tensor as route 0.
"""

import copy
import itertools
import random

import numpy as np

from .. import core, ops, inject, specs, snap as S
from ..audit import audit
from ..core import HarnessError, sr, untuple, jsonable
from ..engine import EngineBase, State
from ..groups import GROUPS, norm_charge

TOPOLOGIES = ["chain2", "chain3", "chain4", "triangle", "star", "double", "chain_double",
              "triangle_double", "braket1", "braket2", "braket2", "braket_double",
              "triple", "chain_triple", "square", "bubble_chain", "bubble_single", "two_pairs"]


def topology_edges(name):
    return {
        "chain2": (2, [(0, 1)]),
        "chain3": (3, [(0, 1), (1, 2)]),
        "chain4": (4, [(0, 1), (1, 2), (2, 3)]),
        "triangle": (3, [(0, 1), (1, 2), (0, 2)]),
        "star": (4, [(0, 1), (0, 2), (0, 3)]),
        "double": (2, [(0, 1), (0, 1)]),
        "chain_double": (3, [(0, 1), (0, 1), (1, 2)]),
        "triangle_double": (3, [(0, 1), (1, 2), (0, 2), (0, 1)]),
        "triple": (2, [(0, 1), (0, 1), (0, 1)]),
        "chain_triple": (3, [(0, 1), (0, 1), (0, 1), (1, 2)]),
        "square": (4, [(0, 1), (1, 2), (2, 3), (0, 3)]),
        # disconnected: a closed sub-network next to the rest (its value is a
        # rank-0 array that still carries labels when multiplied in)
        "bubble_chain": (4, [(0, 1), (0, 1), (2, 3)]),
        "bubble_single": (3, [(0, 1), (0, 1)]),
        "two_pairs": (4, [(0, 1), (2, 3)]),
        "braket1": (1, []),
        "braket2": (2, [(0, 1)]),
        "braket_double": (2, [(0, 1), (0, 1)]),
    }[name]


def gen_network(rng, cfg, labels):
    """-> {"tensors": [{"legs": [...], "spec": spec} | {"legs", "conj_of", "how"}], ...}"""
    sym = cfg["sym"]
    nt, edges = topology_edges(cfg["topology"])
    braket = cfg["topology"].startswith("braket")
    legs = [[] for _ in range(nt)]
    idx = [[] for _ in range(nt)]
    for k, (a, b) in enumerate(edges):
        ix = specs.gen_index(rng, sym, max_charges=cfg["max_charges"], max_size=cfg.get("max_size", 2))
        name = f"b{k}"
        if rng.random() < 0.5:
            a, b = b, a
        legs[a].append(name)
        idx[a].append(ix)
        legs[b].append(name)
        idx[b].append(specs.conj_index_spec(ix))
    nd = 0
    closed = {"bubble_chain": (0, 1), "bubble_single": (0, 1)}.get(cfg["topology"], ())
    for t in range(nt):
        if t in closed:
            continue
        ndang = max(1, rng.choice(cfg["dangling"])) if (braket or cfg["topology"].startswith("bubble")) \
            else rng.choice(cfg["dangling"])
        for _ in range(ndang):
            if nd >= 4:
                break
            legs[t].append(f"d{nd}")
            idx[t].append(specs.gen_index(rng, sym, max_charges=cfg["max_charges"],
                                          max_size=cfg.get("max_size", 2)))
            nd += 1
    tensors = []
    for t in range(nt):
        order = list(range(len(legs[t])))
        rng.shuffle(order)
        lg = [legs[t][i] for i in order]
        ixs = [idx[t][i] for i in order]
        want = rng.choice([0, 1]) if cfg["parities"] == "mixed" else (
            1 if cfg["parities"] == "odd" else 0)
        spec = specs.gen_spec(
            rng, kind="F", sym=sym, indices=ixs, labels=labels, sparsity=cfg["sparsity"],
            want_parity=want, static=cfg["static"], dtype=cfg["dtype"], dist="int",
        )
        tensors.append({"legs": lg, "spec": spec})
    if braket:
        # the conjugate network: every ket tensor conjugated by the library;
        # physical legs are shared with the ket (so they become bonds) unless
        # left open, internal bonds are renamed
        for t in range(nt):
            how = rng.choice(["conj", "dagger", "conj_pd"])
            lg = []
            for l in tensors[t]["legs"]:
                if l.startswith("b"):
                    lg.append(l + "*")
                elif rng.random() < 0.25:
                    lg.append(l + "*")
                else:
                    lg.append(l)
            if how == "dagger":
                lg.reverse()
            tensors.append({"legs": lg, "conj_of": t, "how": how})
    return {"tensors": tensors}


# ---------------------------------------------------------------- routes


def shared_legs(la, lb):
    return [l for l in la if l in lb]


def gen_route(rng, net, canonical=False):
    """A list of decisions that reduces the network to one tensor."""
    cur = {f"T{i}": list(t["legs"]) for i, t in enumerate(net["tensors"])}
    out = []
    if not canonical and any("conj_of" in t for t in net["tensors"]) and rng.random() < 0.5:
        # conjugates are taken only when first needed, i.e. after the kets (and
        # the index objects they share) have already been through contractions
        out.append({"op": "lazy"})
    k = 0
    while len(cur) > 1:
        ids = sorted(cur)
        if canonical:
            a, b = ids[0], ids[1]
            # canonical route keeps a fixed left-to-right order
            a, b = sorted([a, b], key=lambda s: (len(s), s))
        else:
            pairs = [(x, y) for x, y in itertools.combinations(ids, 2)
                     if shared_legs(cur[x], cur[y])]
            allp = list(itertools.combinations(ids, 2))
            if pairs and rng.random() < 0.85:
                a, b = rng.choice(pairs)
            else:
                a, b = rng.choice(allp)
            if rng.random() < 0.5:
                a, b = b, a
        la, lb = cur[a], cur[b]
        # internal pairs must be traced before the tensor is used as operand?
        # no: they may also stay; but a leg name occurring twice in one operand
        # cannot be matched unambiguously, so trace them first.
        for t in (a, b):
            dup = sorted({l for l in cur[t] if cur[t].count(l) == 2})
            if dup:
                out.append({"op": "trace", "t": t, "legs": dup})
                cur[t] = [l for l in cur[t] if l not in dup]
        la, lb = cur[a], cur[b]
        sh = shared_legs(la, lb)
        bonds = list(sh)
        if not canonical:
            if len(bonds) > 1 and rng.random() < 0.5:
                bonds = rng.sample(bonds, rng.randint(1, len(bonds) - 1))
            rng.shuffle(bonds)
            for t in (a, b):
                if rng.random() < 0.35 and len(cur[t]) > 1:
                    perm = list(range(len(cur[t])))
                    rng.shuffle(perm)
                    tr = {"op": "transpose", "t": t, "perm": perm}
                    r_ = rng.random()
                    if r_ < 0.25:
                        # the same permutation with some axes counted from the end
                        tr["neg"] = [bool(rng.random() < 0.5) for _ in perm]
                    elif r_ < 0.45:
                        # the two-step spelling: signs first, then the data
                        tr["twostep"] = True
                    out.append(tr)
                    cur[t] = [cur[t][p] for p in perm]
                if rng.random() < 0.12:
                    # a dummy size-one leg put in and taken out again
                    out.append({"op": "dummy", "t": t, "axis": rng.randrange(len(cur[t]) + 1)})
                if rng.random() < 0.3:
                    out.append({"op": "flush", "t": t})
            la, lb = cur[a], cur[b]
        d = {"op": "contract", "ta": a, "tb": b, "bonds": bonds, "out": f"X{k}"}
        if not canonical:
            d["mode"] = rng.choice(["auto", "fused", "blockwise"])
            if rng.random() < 0.3:
                d["style"] = "matmul_if_possible"
            d["axes_form"] = rng.choice(["tuple", "tuple", "int_if_possible", "negative", "list"])
            # a final full contraction may also be asked for as a plain number
            d["plain"] = rng.random() < 0.5
        k += 1
        out.append(d)
        new = [l for l in la if l not in bonds] + [l for l in lb if l not in bonds]
        del cur[a], cur[b]
        cur[d["out"]] = new
    (t, lg), = cur.items()
    dup = sorted({l for l in lg if lg.count(l) == 2})
    if dup:
        out.append({"op": "trace", "t": t, "legs": dup,
                    "use_trace": (not canonical) and rng.random() < 0.5})
    return out


LET = "abcdefghijklmnopqrstuvwxyz"


def run_route(values, legs, decisions, stats=None, audit_cb=None, derived=None):
    """Execute a route. Returns (final value, final legs). ``derived`` maps a
    tensor id to (base id, how) for tensors that are conjugates of others."""
    cur = dict(values)
    lg = {k: list(v) for k, v in legs.items()}
    orig = dict(values)
    pending = {}
    if derived and any(d["op"] == "lazy" for d in decisions):
        for t, (base, how) in derived.items():
            pending[t] = (base, how)
            cur.pop(t, None)
        if stats is not None:
            stats["route.lazy_conjugates"] += 1

    def need(t):
        if t in pending:
            base, how = pending.pop(t)
            cur[t] = make_conj(orig[base], how)

    for d in decisions:
        op = d["op"]
        if op == "lazy":
            continue
        for key in ("t", "ta", "tb"):
            if key in d:
                need(d[key])
        if op == "transpose":
            t = d["t"]
            if t not in cur:
                continue
            perm_arg = tuple(d["perm"])
            if d.get("neg"):
                nd_ = len(perm_arg)
                perm_arg = tuple(p - nd_ if ng else p for p, ng in zip(perm_arg, d["neg"]))
                if stats is not None:
                    stats["route.transpose_negative_axes"] += 1
            if d.get("twostep") and isinstance(cur[t], sr.FermionicArray):
                cur[t] = cur[t].phase_transpose(perm_arg).transpose(perm_arg, phase=False)
                if stats is not None:
                    stats["route.transpose_two_step"] += 1
            else:
                cur[t] = cur[t].transpose(perm_arg)
            lg[t] = [lg[t][p] for p in d["perm"]]
        elif op == "dummy":
            t = d["t"]
            if t in cur and isinstance(cur[t], sr.AbelianArray) and cur[t].ndim >= 1:
                k_ = min(d["axis"], cur[t].ndim)
                cur[t] = cur[t].expand_dims(k_).squeeze(k_)
                if stats is not None:
                    stats["route.dummy_leg"] += 1
        elif op == "flush":
            t = d["t"]
            if t in cur and isinstance(cur[t], sr.FermionicArray):
                if stats is not None and S.has_pending(cur[t]):
                    stats["fault.flush"] += 1
                cur[t] = cur[t].phase_sync()
        elif op == "trace":
            t = d["t"]
            if t not in cur:
                continue
            names = lg[t]
            letters = {}
            for l in names:
                if l not in letters:
                    letters[l] = LET[len(letters)]
            lhs = "".join(letters[l] for l in names)
            keep = [l for l in names if l not in d["legs"]]
            rhs = "".join(letters[l] for l in keep)
            x = cur[t]
            if (d.get("use_trace") and x.ndim == 2 and not keep
                    and x.indices[0].dual != x.indices[1].dual):
                # the two-index special case through the public trace()
                val = x.trace()
                cur[t] = val
                lg[t] = keep
                if stats is not None:
                    stats["route.trace_method"] += 1
                continue
            cur[t] = x.einsum(f"{lhs}->{rhs}", preserve_array=True)
            lg[t] = keep
            if stats is not None:
                stats["route.trace_by_einsum"] += 1
        elif op == "contract":
            a, b = d["ta"], d["tb"]
            if a not in cur or b not in cur:
                continue
            A, B = cur[a], cur[b]
            la, lb = lg[a], lg[b]
            bonds = [l for l in d["bonds"] if l in la and l in lb]
            ax_a = [la.index(l) for l in bonds]
            ax_b = [lb.index(l) for l in bonds]
            kw = {}
            if "mode" in d:
                kw["mode"] = d["mode"]
            if (d.get("style") == "matmul_if_possible" and 1 <= A.ndim <= 2 and 1 <= B.ndim <= 2
                    and len(bonds) == 1 and ax_a == [A.ndim - 1] and ax_b == [0]
                    and (A.ndim + B.ndim > 2 or len(cur) == 2)):
                # (vector @ vector gives a plain number: only as the last step)
                C = A @ B
                if stats is not None:
                    stats["route.matmul"] += 1
            else:
                axes = (tuple(ax_a), tuple(ax_b))
                form = d.get("axes_form", "tuple")
                n = len(bonds)
                if (form == "int_if_possible" and ax_a == list(range(A.ndim - n, A.ndim))
                        and ax_b == list(range(n))):
                    axes = n
                    if stats is not None:
                        stats["route.int_axes"] += 1
                elif form == "negative":
                    axes = (tuple(i - A.ndim for i in ax_a), tuple(i - B.ndim for i in ax_b))
                elif form == "list":
                    axes = [list(ax_a), list(ax_b)]
                full = (len(cur) == 2 and A.ndim == n and B.ndim == n)
                if d.get("plain") and full:
                    C = sr.tensordot(A, B, axes=axes, **kw)
                    if stats is not None:
                        stats["route.plain_scalar_result"] += 1
                else:
                    C = sr.tensordot(A, B, axes=axes, preserve_array=True, **kw)
            if stats is not None:
                stats["route.contract"] += 1
                if len(bonds) == 0:
                    stats["route.outer_product"] += 1
                if len(bonds) < len(shared_legs(la, lb)):
                    stats["route.partial_bond_contraction"] += 1
                if A.parity and B.parity:
                    stats["reach.odd_times_odd"] += 1
                la_, lb_ = S.raw_oddpos(A), S.raw_oddpos(B)
                if any(o.dual for o in la_ + lb_):
                    stats["reach.dual_labels_in_contraction"] += 1
                if len(S.raw_oddpos(C)) < len(la_) + len(lb_):
                    stats["reach.label_annihilation"] += 1
            del cur[a], cur[b]
            del lg[a], lg[b]
            cur[d["out"]] = C
            lg[d["out"]] = [l for l in la if l not in bonds] + [l for l in lb if l not in bonds]
            if audit_cb is not None:
                audit_cb(C, d)
    if len(cur) != 1:
        return None, None
    (t, v), = cur.items()
    return v, lg[t]


def make_conj(base, how):
    if how == "dagger":
        return base.dagger()
    if how == "conj_pd":
        return base.conj(phase_dual=True)
    return base.conj()


def run_ketconj(net, build_ket, stats=None):
    """Bra-ket networks only: contract the ket tensors first, conjugate the
    *contracted* ket (instead of contracting conjugated leaves) and close the
    network with it. Returns (value, legs) or None if not applicable."""
    ts = net["tensors"]
    kets = [i for i, t in enumerate(ts) if "conj_of" not in t]
    bras = [i for i, t in enumerate(ts) if "conj_of" in t]
    hows = {ts[i]["how"] for i in bras}
    if not bras or len(bras) != len(kets) or len(hows) != 1 or hows & {"conj_pd"}:
        return None
    how = hows.pop()
    vals = build_ket()
    # ket tensors, left to right, over all shared bonds
    cur_v, cur_l = vals[f"T{kets[0]}"], list(ts[kets[0]]["legs"])
    for i in kets[1:]:
        v, l = vals[f"T{i}"], list(ts[i]["legs"])
        sh = [x for x in cur_l if x in l]
        cur_v = sr.tensordot(cur_v, v, axes=([cur_l.index(x) for x in sh], [l.index(x) for x in sh]),
                             preserve_array=True)
        cur_l = [x for x in cur_l if x not in sh] + [x for x in l if x not in sh]
    # name of every dangling ket leg on the bra side
    ren = {}
    for i, b in zip(kets, bras):
        kl, bl = ts[i]["legs"], ts[b]["legs"]
        if how == "dagger":
            bl = list(reversed(bl))
        for a, c in zip(kl, bl):
            ren[a] = c
    bra_v = make_conj(cur_v, how)
    bra_l = [ren[x] for x in cur_l]
    if how == "dagger":
        bra_l.reverse()
    sh = [x for x in cur_l if x in bra_l]
    out = sr.tensordot(cur_v, bra_v, axes=([cur_l.index(x) for x in sh], [bra_l.index(x) for x in sh]),
                       preserve_array=True)
    out_l = [x for x in cur_l if x not in sh] + [x for x in bra_l if x not in sh]
    if stats is not None:
        stats["route.conjugated_intermediate"] += 1
    return out, out_l


def canonicalise(v, legs):
    """Bring free legs into sorted-name order by fermionic transpose."""
    order = sorted(range(len(legs)), key=lambda i: legs[i])
    if order != list(range(len(legs))):
        v = v.transpose(tuple(order))
    return v, [legs[i] for i in order]


def tensors_equal(x, y, rtol=1e-9, atol=1e-9):
    """Route-level comparison: same direction per leg, same size for every
    charge both tables know, same total charge, same labels, same values with
    pending signs multiplied in (absent block == zero block; a charge known to
    only one table must carry no non-zero block)."""
    if x.ndim != y.ndim:
        return f"rank {x.ndim} vs {y.ndim}"
    if norm_charge(x.charge) != norm_charge(y.charge):
        return f"total charge {x.charge} vs {y.charge}"
    if type(x.symmetry).__name__ != type(y.symmetry).__name__:
        return "symmetry"
    for i, (ix, iy) in enumerate(zip(x.indices, y.indices)):
        if ix.dual != iy.dual:
            return f"leg {i} direction"
        for c, d in ix.chargemap.items():
            if c in iy.chargemap and iy.chargemap[c] != d:
                return f"leg {i} size of charge {c}: {d} vs {iy.chargemap[c]}"
    ox = tuple((norm_charge(o.label), bool(o.dual)) for o in S.raw_oddpos(x))
    oy = tuple((norm_charge(o.label), bool(o.dual)) for o in S.raw_oddpos(y))
    if ox != oy:
        return f"remaining labels {ox} vs {oy}"
    bx, by = S.eff_blocks(x), S.eff_blocks(y)
    for s in set(bx) | set(by):
        a, b = bx.get(s), by.get(s)
        if a is None:
            a = np.zeros_like(b)
        if b is None:
            b = np.zeros_like(a)
        if a.shape != b.shape:
            return f"block shape at {s}"
        scale = max(float(np.max(np.abs(a))) if a.size else 0.0,
                    float(np.max(np.abs(b))) if b.size else 0.0)
        if a.size and float(np.max(np.abs(a - b))) > atol + rtol * scale:
            return f"values at sector {s} (max diff {float(np.max(np.abs(a - b))):.3g}, scale {scale:.3g})"
    return None


class C04(EngineBase):
    prop = "C04"
    name = "c04"
    chunk = 25
    state_measure = "distinct (topology, parity assignment, route shape) triples"
    rule = ("one evaluation = one seeded network with 6-24 seeded contraction routes compared with the "
            "canonical route; non-trivial = at least one injected event (sign flush, operand transpose, "
            "partial-bond contraction or operand swap) fired and at least three contractions ran; "
            "distinct = distinct SHA-1 of the run's event log")

    def make_config(self, streams, tier):
        r = streams.get("config")
        return {
            "sym": r.choice(["Z2", "U1", "Z2Z2", "U1U1", "Z2", "U1", "Z2Z2", "U1U1", "Z4"]),
            "topology": r.choice(TOPOLOGIES),
            "dangling": r.choice([[0], [0, 1], [0, 1, 2], [1, 2]]),
            "max_charges": r.choice([2, 2, 3]),
            "sparsity": r.choice([0.0, 0.15, 0.4]),
            "parities": r.choice(["mixed", "mixed", "odd", "even"]),
            "static": r.random() < 0.6,
            "max_size": r.choice([2, 2, 3]),
            "dtype": r.choice(["float64", "complex128"]),
            "nroutes": r.choice([6, 10]) if tier == "quick" else r.choice([12, 24]),
            "maxsize": r.choice([0, 1, 8192]),
            "n_macro": 1,
        }

    def start(self, config):
        core.world_reset(config["maxsize"], 512)
        st = State()
        st.config = config
        st.net = None
        st.routes = {}
        st.states = set()
        return st

    def gen_macro(self, st, rng):
        cfg = st.config
        labels = specs.LabelMaker(rng)
        net = gen_network(rng, cfg, labels)
        steps = [{"op": "@net", "net": net}]
        for d in gen_route(rng, net, canonical=True):
            steps.append(dict(d, route=0))
        for r in range(1, cfg["nroutes"] + 1):
            for d in gen_route(rng, net):
                steps.append(dict(d, route=r))
        return steps

    def exec_step(self, st, step):
        if step["op"] == "@net":
            st.net = step["net"]
            return
        st.routes.setdefault(step["route"], []).append(step)

    def _build(self, st):
        vals, legs = {}, {}
        for i, t in enumerate(st.net["tensors"]):
            if "conj_of" in t:
                base = vals.get(f"T{t['conj_of']}")
                if base is None:
                    continue
                vals[f"T{i}"] = make_conj(base, t["how"])
            else:
                vals[f"T{i}"] = specs.build(t["spec"])
            legs[f"T{i}"] = list(t["legs"])
        return vals, legs

    def finish(self, st):
        if st.net is None or 0 not in st.routes:
            return
        cfg = st.config

        def audit_cb(v, d):
            probs = audit(v)
            st.stats["oracle.audited"] += 1
            if probs:
                self.report(st, "intermediate-valid:" + probs[0][0], "tensordot",
                            f"intermediate {d.get('out')}: {probs[0][1]}", [])

        par = tuple(GROUPS[cfg["sym"]].parity(untuple(t["spec"]["charge"]))
                    for t in st.net["tensors"] if "spec" in t)
        results = {}
        for r in sorted(st.routes):
            vals, legs = self._build(st)
            try:
                derived = {f"T{i}": (f"T{t['conj_of']}", t["how"])
                           for i, t in enumerate(st.net["tensors"]) if "conj_of" in t}
                v, lg = run_route(vals, legs, st.routes[r], st.stats, audit_cb, derived)
            except HarnessError:
                raise
            except Exception as e:  # noqa: BLE001
                results[r] = ("raised", type(e).__name__, str(e)[:120])
                st.log.add("route-raised", [r, type(e).__name__])
                continue
            if v is None:
                results[r] = ("incomplete",)
                continue
            if isinstance(v, sr.AbelianArray) and v.ndim > 0:
                v, lg = canonicalise(v, lg)
            results[r] = ("ok", v, lg)
            st.stats["step.ok"] += sum(1 for d in st.routes[r] if d["op"] == "contract")
            shape = tuple((d["op"], len(d.get("bonds", ())), d.get("mode")) for d in st.routes[r])
            st.states.add(core.digest([cfg["topology"], par, shape])[:12])
            st.stats["fault.operand_transpose"] += sum(1 for d in st.routes[r] if d["op"] == "transpose")
            st.log.add("route", [r, lg, S.structure(v) if S.kind_of(v) in "AF" else "scalar"])
        if cfg["topology"].startswith("braket") and cfg.get("ketconj", True):
            try:
                kc = run_ketconj(st.net, lambda: self._build(st)[0], st.stats)
            except HarnessError:
                raise
            except Exception as e:  # noqa: BLE001
                kc = ("raised", type(e).__name__, str(e)[:120])
            if kc is not None:
                if kc[0] == "raised":
                    results["ketconj"] = kc
                else:
                    v, lg = kc
                    if isinstance(v, sr.AbelianArray) and v.ndim > 0:
                        v, lg = canonicalise(v, lg)
                    results["ketconj"] = ("ok", v, lg)
        ref = results.get(0)
        if ref is None or ref[0] != "ok":
            st.stats["route.reference_failed"] += 1
            oks = sorted((str(r_) for r_, res_ in results.items() if r_ != 0 and res_[0] == "ok"))
            if oks and ref is not None and ref[0] == "raised":
                # whether the network can be contracted at all must not depend
                # on the route either
                self.report(st, "route-independent", "route-raised",
                            f"canonical route raised {ref[1]}: {ref[2]} but route {oks[0]} succeeds",
                            ["raise-mismatch"])
            return
        for r, res in sorted(results.items(), key=lambda kv: str(kv[0])):
            if r == 0:
                continue
            if res[0] == "incomplete":
                continue
            st.stats["oracle.routes_compared"] += 1
            if res[0] == "raised":
                self.report(st, "route-independent", "route-raised",
                            f"canonical route succeeds but route {r} raised {res[1]}: {res[2]}",
                            ["raise-mismatch"])
                continue
            v0, l0 = ref[1], ref[2]
            v, lg = res[1], res[2]
            if lg != l0:
                # (its own class: a shortened program whose route merely stops
                # early must not pass for the value mismatch being minimised)
                self.report(st, "route-independent", "route-legs", f"free legs {lg} vs {l0}", [])
                continue
            if S.kind_of(v0) == "S" or S.kind_of(v) == "S" or v0.ndim == 0:
                a = self._scalar(v0)
                b = self._scalar(v)
                if abs(a - b) > 1e-9 * max(1.0, abs(a), abs(b)):
                    self.report(st, "route-independent", "route",
                                f"route {r}: scalar {b!r} vs canonical {a!r}", ["scalar"])
                elif S.kind_of(v0) in "AF" and S.kind_of(v) in "AF":
                    why = tensors_equal(v0, v)
                    if why and "values" not in why:
                        self.report(st, "route-independent", "route", f"route {r}: {why}", ["scalar"])
                continue
            why = tensors_equal(v0, v)
            if why:
                self.report(st, "route-independent", "route", f"route {r}: {why}",
                            ["labels" if "labels" in why else "value"])

    @staticmethod
    def _scalar(v):
        if S.kind_of(v) == "S":
            return complex(v)
        b = S.eff_blocks(v)
        if not b:
            return 0j
        return complex(np.asarray(b[()]).reshape(()))

    def gate(self, stats, agg, tier):
        probs = []
        if agg["runs"] >= 100:
            for k in ("oracle.routes_compared", "route.partial_bond_contraction",
                      "route.trace_by_einsum", "reach.odd_times_odd", "fault.flush",
                      "fault.operand_transpose", "route.outer_product"):
                if not stats.get(k):
                    probs.append(f"c04: reach probe {k} is zero")
        return probs
