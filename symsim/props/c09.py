"""C09 — lazily tracked fermionic signs are unobservable.

One seeded program runs in R = 4 replicas built from identical specs; the
replicas differ only in *when* pending signs are flushed (F2): replica 0
never receives an injected flush, replica 1 flushes every live fermionic
value before every step, replicas 2-3 follow their own seeded schedules.
After every step all replicas must be observably equal.
"""

import random

import numpy as np

from .. import core, ops, inject, snap as S
from ..core import HarnessError, sr
from ..engine import EngineBase, State

R = 4

C09_OPS = {
    "new": 3, "copy": 2, "transpose": 6, "conj": 4, "dagger": 4, "fuse": 6,
    "unfuse": 4, "unfuse_all": 2, "reshape": 4, "squeeze": 1, "expand_dims": 2,
    "tensordot": 8, "matmul": 3, "trace": 2, "einsum": 3,
    "multiply_diagonal": 3, "align_axes": 2, "sync_charges": 1, "fill_drop": 1,
    "arith2": 4, "arith1": 3, "unary": 4, "item": 2, "to_dense": 2,
    "allclose": 2, "solve": 2, "expm": 2, "phase": 6,
    "qr_recon": 2, "svd_recon": 2, "svdt_recon": 2, "eigh_recon": 2,
    "convert": 2, "tdot_scalar": 1, "div_arrays": 2, "boolreduce": 1, "stale": 3, "reassemble": 2, "factors": 3, "sparsity": 1, "reparam": 2, "align_inplace": 1,
}


INEXACT = {"qr_recon", "svd_recon", "svdt_recon", "eigh_recon", "solve"}


def degenerate_spectrum(x, tol=1e-6):
    """True if two non-zero singular values of the matrix (across blocks) are
    closer than tol (relative): a truncation may then legitimately keep
    different vectors for A and for -A."""
    sv = []
    for b in x.blocks.values():
        b = np.asarray(b)
        if b.ndim != 2 or 0 in b.shape:
            continue
        try:
            sv.extend(np.linalg.svd(b, compute_uv=False).tolist())
        except Exception:  # noqa: BLE001
            return True
    sv = sorted(v for v in sv if v > 1e-12)
    for a, b in zip(sv, sv[1:]):
        if b - a <= tol * max(b, 1.0):
            return True
    return False


class C09(EngineBase):
    prop = "C09"
    name = "c09"
    chunk = 30
    state_measure = "distinct shapes of pending-sign tables (sorted sector tuples) met at operation time"

    def make_config(self, streams, tier):
        r = streams.get("config")
        return {
            "maxsize": r.choice(inject.CACHE_SIZES),
            "maxsectors": r.choice(inject.CACHE_SECTORS[1:]),
            "sparsity": r.choice([0.0, 0.15, 0.4]),
            "p_inplace": r.choice([0.0, 0.15, 0.3]),
            "p_flush": r.choice([0.2, 0.5, 0.8]),
            "p_cache": r.choice([0.0, 0.1]),
            "syms": r.choice([["Z2"], ["U1"], ["Z2Z2"], ["U1U1"], ["Z2", "U1"], ["Z4"],
                              ["Z2", "U1", "Z2Z2", "U1U1"]]),
            "n_macro": r.choice([8, 12, 18]) if tier == "quick" else r.choice([12, 20, 30]),
            "wseed": r.randrange(2**31),
            "max_charges": r.choice([3, 3, 3, 4, 5]),
            "max_size": r.choice([3, 3, 3, 4]),
            "p_ctor_phases": r.choice([0.0, 0.0, 0.15]),
        }

    def start(self, config):
        core.world_reset(config["maxsize"], config["maxsectors"])
        st = State()
        st.config = config
        st.heaps = [dict() for _ in range(R)]
        st.heap = st.heaps[0]
        st.ctx = None
        st.states = set()
        return st

    def gen_macro(self, st, rng):
        cfg = st.config
        if st.ctx is None:
            st.ctx = ops.Ctx(rng, kinds=("F",), syms=tuple(cfg["syms"]),
                             p_inplace=cfg["p_inplace"], sparsity=cfg["sparsity"],
                             deny=("qr", "svd", "svd_truncated", "eigh"),
                             max_charges=cfg.get("max_charges", 3), max_size=cfg.get("max_size", 3))
            st.ctx.p_ctor_phases = cfg.get("p_ctor_phases", 0.0)
            st.ctx.weights = ops.swarm_weights(random.Random(cfg["wseed"]),
                                               base=C09_OPS, p_off=0.2,
                                               keep=("new", "tensordot", "transpose", "phase"))
            for k in st.ctx.weights:
                st.ctx.weights[k] = C09_OPS[k] * (st.ctx.weights[k] / (ops.GENERATORS[k][1] or 1))
        steps = []
        if rng.random() < cfg["p_cache"]:
            steps.append({"op": "@cache", "a": inject.gen_cache_event(rng)})
        new = ops.gen_steps(st.ctx, st.heap)
        fn = ops.names_of(st.heap, "F")
        for s in new:
            fl = {}
            for r in (2, 3):
                if fn and rng.random() < cfg["p_flush"]:
                    fl[str(r)] = rng.sample(fn, rng.randint(1, len(fn)))
            if fl:
                s["flush"] = fl
        return steps + new

    # ------------------------------------------------------------- execute
    def _flush(self, st, r, step):
        heap = st.heaps[r]
        if r == 0:
            return
        if r == 1:
            targets = [v for v in heap.values() if isinstance(v, sr.FermionicArray)]
        else:
            names = step.get("flush", {}).get(str(r), [])
            targets = [heap[n] for n in names if n in heap]
        seen = set()
        for v in targets:
            if id(v) in seen or not isinstance(v, sr.FermionicArray):
                continue
            seen.add(id(v))
            if S.has_pending(v):
                st.stats["fault.flush"] += 1
            try:
                v.phase_sync(inplace=True)
            except HarnessError:
                raise
            except Exception:  # noqa: BLE001 - e.g. boolean blocks: reported by the step oracle
                st.stats["step.flush_raised"] += 1

    def exec_step(self, st, step):
        op = step["op"]
        if op == "@cache":
            tag = inject.apply_cache_event(step["a"], st.heaps[0])
            if tag:
                st.stats["fault.cache." + tag] += 1
            return
        if any(n not in st.heap for n in step.get("in", [])):
            st.stats["step.skipped"] += 1
            return
        if op == "del":
            for h in st.heaps:
                ops.bind(step, h, None)
            return
        vals0 = [st.heap[n] for n in step.get("in", [])]
        pending = any(S.has_pending(v) for v in vals0)
        if pending:
            st.stats["reach.pending_at_op"] += 1
            for v in vals0:
                if S.has_pending(v):
                    st.states.add(core.digest(sorted(map(repr, S.raw_phases(v))))[:10])
        degenerate = op == "svdt_recon" and degenerate_spectrum(vals0[0])
        outs = []
        for r in range(R):
            self._flush(st, r, step)
            heap = st.heaps[r]
            if any(n not in heap for n in step.get("in", [])):
                outs.append(("missing",))
                continue
            try:
                res = ops.run_step(step, heap)
            except HarnessError:
                raise
            except Exception as e:  # noqa: BLE001
                outs.append(("raised", type(e).__name__, str(e)[:100]))
                continue
            outs.append(("ok", res))
        tags = ["operand-has-pending-signs"] if pending else ["no-pending-signs"]
        bad = None
        k0 = outs[0]
        for r in range(1, R):
            kr = outs[r]
            if kr[0] != k0[0] or (k0[0] == "raised" and kr[1] != k0[1]):
                bad = (f"replica 0 (never flushed): {k0[:2] if k0[0] != 'ok' else 'ok'}; "
                       f"replica {r}: {kr[:3] if kr[0] != 'ok' else 'ok'}")
                tags.append("raise-mismatch")
                break
            if k0[0] == "ok":
                a, b = k0[1], kr[1]
                if degenerate and isinstance(a, tuple):
                    a, b = a[1:], b[1:]
                    st.stats["oracle.skipped_degenerate_truncation"] += 1
                rtol = 1e-6 if op in INEXACT else 1e-9
                why = S.same_tensor(a, b, rtol=rtol, atol=1e-9 if rtol > 1e-8 else 1e-11)
                if why:
                    bad = f"replica 0 (never flushed) vs replica {r}: {why}"
                    break
        if k0[0] == "ok":
            st.stats["step.ok"] += 1
            st.stats["op." + op] += 1
            st.stats["oracle.compared"] += R - 1
        elif k0[0] == "raised":
            st.stats["step.raised"] += 1
        st.log.add(k0[0], [op, S.structure(k0[1]) if k0[0] == "ok" and S.kind_of(k0[1]) in "AF" else None])
        if bad:
            ent = self.report(st, "replicas-equal", op, bad, tags)
            # known finding: do not feed the tainted results back
            for h in st.heaps:
                for n in step.get("out", []):
                    h.pop(n, None)
            return
        if k0[0] != "ok":
            if ops.is_inplace(step):
                for h in st.heaps:
                    for tn in ops.inplace_targets(step):
                        h.pop(tn, None)
            return
        if op in INEXACT:
            # factorisations of B and of -B agree only to rounding; carrying
            # the rounding differences along would let later non-Lipschitz
            # operations (sqrt near zero, == 0 tests, division) amplify them
            # into false alarms. Once the results have compared equal, every
            # replica continues from a memory-disjoint copy of replica 0's.
            for r in range(1, R):
                outs[r] = ("ok", S.clone(k0[1]))
            st.stats["oracle.resynchronised_after_factorisation"] += 1
        for r in range(R):
            ops.bind(step, st.heaps[r], outs[r][1])
        # sync invariants on replica 0's fermionic outputs
        res0 = k0[1]
        for v in (res0 if isinstance(res0, tuple) else (res0,)):
            if isinstance(v, sr.FermionicArray):
                self._sync_invariants(st, v, op)
        # whole-heap comparison: signs must be applied exactly once however
        # many operations intervene
        for n, v0 in st.heap.items():
            if n in step.get("out", []):
                continue
            for r in range(1, R):
                vr = st.heaps[r].get(n)
                if vr is None:
                    continue
                why = S.same_tensor(v0, vr, rtol=1e-6, atol=1e-9)
                if why:
                    ent = self.report(st, "replicas-equal-heap", op,
                                      f"after {op}: heap value {n} differs between replica 0 and {r}: {why}",
                                      tags)
                    for h in st.heaps:
                        h.pop(n, None)
                    return

    def _sync_invariants(self, st, v, op):
        try:
            s1 = v.phase_sync()
        except HarnessError:
            raise
        except Exception as e:  # noqa: BLE001
            ent = self.report(st, "sync-total", op,
                              f"phase_sync() of the result raised {type(e).__name__}: {e}",
                              ["operand-has-pending-signs"])
            return
        why = S.same_tensor(v, s1, rtol=0, atol=0)
        if why:
            self.report(st, "sync-preserves-value", op, f"phase_sync changed the value: {why}", [])
        if any(p == -1 for p in S.raw_phases(s1).values()):
            self.report(st, "sync-empties-table", op, "pending signs left after phase_sync", [])
        s2 = s1.phase_sync()
        if S.snap(s1) != S.snap(s2):
            self.report(st, "sync-idempotent", op, "second phase_sync changed the array", [])
        st.stats["oracle.sync_invariants"] += 1

    def gate(self, stats, agg, tier):
        probs = []
        if agg["runs"] >= 50:
            for k in ("fault.flush", "reach.pending_at_op", "oracle.sync_invariants"):
                if not stats.get(k):
                    probs.append(f"c09: reach probe {k} is zero")
        return probs
