"""C01 — every result is a valid symmetric array.

History simulation over a heap that is closed under the operations, with the
independent auditor (symsim/audit.py) run on every value returned by every
step and on the whole heap after every injected event (F1 cache
perturbation, F2 flush, F3 crash in an out-of-place call, F6 representation
shuffle). All five groups, static and dynamic classes.
"""

import collections
import hashlib
import random

import numpy as np

from .. import core, ops, inject, snap as S
from ..audit import audit
from ..core import HarnessError, AC, sr
from ..engine import EngineBase, State
from ..groups import group_of


class C01(EngineBase):
    prop = "C01"
    name = "c01"
    chunk = 40
    state_measure = "distinct (operation, result structure) pairs audited"

    def make_config(self, streams, tier):
        r = streams.get("config")
        return {
            "maxsize": r.choice(inject.CACHE_SIZES),
            "maxsectors": r.choice(inject.CACHE_SECTORS[1:]),
            "sparsity": r.choice([0.0, 0.15, 0.4]),
            "p_inplace": r.choice([0.0, 0.15, 0.3]),
            "p_crash": r.choice([0.0, 0.0, 0.2]),
            "p_cache": r.choice([0.0, 0.1, 0.3]),
            "p_flush": r.choice([0.0, 0.1, 0.3]),
            "p_shuffle": r.choice([0.0, 0.1]),
            "p_variant": r.choice([0.0, 0.15, 0.3]),
            "kinds": r.choice([["A", "F"], ["F"], ["F"], ["A"]]),
            "syms": r.choice([["Z2"], ["U1"], ["Z2Z2"], ["U1U1"], ["Z4"], ["Z4"],
                              ["Z2", "U1", "Z2Z2", "U1U1", "Z4"]]),
            "n_macro": r.choice([12, 20, 30]) if tier == "quick" else r.choice([12, 25, 40]),
            "wseed": r.randrange(2**31),
            "max_charges": r.choice([3, 3, 3, 4, 5]),
            "max_size": r.choice([3, 3, 3, 4]),
            "p_ctor_phases": r.choice([0.0, 0.0, 0.15]),
        }

    def start(self, config):
        core.world_reset(config["maxsize"], config["maxsectors"])
        st = State()
        st.config = config
        st.heap = {}
        st.ctx = None
        st.states = set()
        st.roots = {}     # name -> spec of arrays built from specs
        st.first = {}     # root name -> first unary step applied to it
        return st

    def gen_macro(self, st, rng):
        cfg = st.config
        if st.ctx is None:
            st.ctx = ops.Ctx(rng, kinds=tuple(cfg["kinds"]), syms=tuple(cfg["syms"]),
                             p_inplace=cfg["p_inplace"], sparsity=cfg["sparsity"],
                             max_charges=cfg.get("max_charges", 3), max_size=cfg.get("max_size", 3))
            st.ctx.p_ctor_phases = cfg.get("p_ctor_phases", 0.0)
            st.ctx.weights = ops.swarm_weights(random.Random(cfg["wseed"]), p_off=0.2)
        steps = []
        if rng.random() < cfg["p_cache"]:
            steps.append({"op": "@cache", "a": inject.gen_cache_event(rng)})
        fn = ops.names_of(st.heap, "F")
        if fn and rng.random() < cfg["p_flush"]:
            steps.append({"op": "@flush", "in": rng.sample(fn, rng.randint(1, len(fn)))})
        an = ops.names_of(st.heap, "AF")
        if an and rng.random() < cfg["p_shuffle"]:
            steps.append({"op": "@shuffle", "in": [rng.choice(an)], "k": rng.randrange(1000)})
        new = None
        if st.first and rng.random() < cfg.get("p_variant", 0.0):
            # a near-identical array (one attribute changed, possibly only the
            # symmetry group) gets the very call an earlier array got: results
            # must be valid whatever plans that earlier call left behind
            from .. import specs as _specs
            import copy as _copy
            r = rng.choice(sorted(st.first))
            kind, v = _specs.variant_of(rng, st.roots[r], st.ctx.labels,
                                        kinds=["sym", "sym", "dual", "sector", "size", "label", "dtype"])
            if v is not None and v["sym"] in cfg["syms"] + ["Z2", "U1", "Z4", "Z2Z2", "U1U1"]:
                nn = st.ctx.fresh()
                stp = _copy.deepcopy(st.first[r])
                stp["in"] = [nn]
                stp["out"] = [st.ctx.fresh() for _ in stp["out"]]
                stp["a"].pop("inplace", None)
                stp.pop("crash", None)
                stp.pop("crash_n", None)
                new = [{"op": "new", "in": [], "out": [nn], "a": {"spec": v}, "variant": kind}, stp]
        if not new:
            new = ops.gen_steps(st.ctx, st.heap)
        for s in new:
            if s["op"] == "new" and "variant" not in s and "indices" in s["a"]["spec"]:
                st.roots[s["out"][0]] = s["a"]["spec"]
            elif (len(s.get("in", [])) == 1 and s["in"][0] in st.roots
                    and s["in"][0] not in st.first and len(st.first) < 8
                    and s["op"] in ("fuse", "reshape", "transpose", "conj", "dagger",
                                    "svd_truncated", "qr", "svd", "squeeze", "expand_dims")
                    # (no einsum: a trace equation is only valid for the
                    # directions it was drawn for)
                    # a charge argument is only valid for the group it was drawn for
                    and s.get("a", {}).get("c") is None):
                st.first[s["in"][0]] = {k: v for k, v in s.items()}
        for s in new:
            if (cfg["p_crash"] and not ops.is_inplace(s)
                    and s["op"] not in ("new", "newvec", "del")
                    and rng.random() < cfg["p_crash"]):
                s["crash"] = rng.random()
        return steps + new

    # ------------------------------------------------------------- execute
    def _tags(self, step, vals, res):
        tags = []
        op = step["op"]
        a = step.get("a", {})
        if any(isinstance(v, sr.FermionicArray) for v in vals):
            tags.append("fermionic")
        if op == "expand_dims" and a.get("c") is not None and vals:
            try:
                g = group_of(vals[0])
                if g.parity(core.untuple(a["c"])):
                    tags.append("inserted-charge-odd")
                    if isinstance(vals[0], sr.FermionicArray):
                        tags.append("fermionic-inserted-charge-odd")
            except Exception:  # noqa: BLE001
                pass
        if op == "solve" and vals:
            try:
                g = group_of(vals[0])
                if isinstance(vals[0], sr.FermionicArray) and g.parity(vals[0].charge):
                    tags.append("fermionic-odd-matrix")
            except Exception:  # noqa: BLE001
                pass
        return tags

    @staticmethod
    def _audit(v):
        """The auditor; a value so malformed that it cannot even be inspected
        (an attribute every array or index has is missing, a table is not a
        mapping) is a finding about the value, not a failure of the harness."""
        try:
            return audit(v)
        except HarnessError:
            raise
        except Exception as e:  # noqa: BLE001
            return [("uninspectable", f"{type(e).__name__}: {str(e)[:120]}")]

    def _audit_value(self, st, step, vals, res, what="result"):
        probs = self._audit(res)
        st.stats["oracle.audited"] += 1
        if probs:
            rule, detail = probs[0]
            ent = self.report(st, "audit:" + rule, step["op"],
                              f"{what}: {detail}", self._tags(step, vals, res))
            return False
        return True

    def _audit_heap(self, st, step, what):
        for n, v in list(st.heap.items()):
            if S.kind_of(v) not in "AFV":
                continue
            probs = self._audit(v)
            st.stats["oracle.audited"] += 1
            if probs:
                rule, detail = probs[0]
                self.report(st, "audit-heap:" + rule, step["op"],
                            f"{what}: heap value {n}: {detail}", [what])
                del st.heap[n]

    def exec_step(self, st, step):
        heap = st.heap
        op = step["op"]
        if op == "@cache":
            tag = inject.apply_cache_event(step["a"], heap)
            if tag:
                st.stats["fault.cache." + tag] += 1
            self._audit_heap(st, step, "after-cache-event")
            return
        if op == "@flush":
            targets = [heap[n] for n in step["in"] if n in heap]
            if any(S.has_pending(v) for v in targets):
                st.stats["fault.flush"] += 1
            try:
                inject.flush(targets)
            except HarnessError:
                raise
            except Exception:  # noqa: BLE001
                for n in [n for n, v in heap.items() if any(v is t for t in targets)]:
                    del heap[n]
            self._audit_heap(st, step, "after-flush")
            return
        if op == "@shuffle":
            n = step["in"][0]
            if n in heap and S.kind_of(heap[n]) in "AF" and heap[n].num_blocks > 1:
                v = heap[n]
                order = sorted(v.blocks, key=lambda s: hashlib.sha1(
                    repr((step["k"], s)).encode()).hexdigest())
                new = S.clone(v)
                blocks = {s: new.blocks[s] for s in order}
                new.blocks.clear()
                new.blocks.update(blocks)
                heap[n] = new
                st.stats["fault.shuffle"] += 1
            return
        if any(n not in heap for n in step.get("in", [])):
            st.stats["step.skipped"] += 1
            return
        if op == "del":
            ops.bind(step, heap, None)
            return
        vals = [heap[n] for n in step.get("in", [])]
        inplace = ops.is_inplace(step)
        crashed = False
        if "crash" in step and not inplace:
            saved = collections.OrderedDict(core.CACHE._fuseinfos)
            counters = core.cache_counters()
            core.clear_lru()
            cl = {}
            for n in step["in"]:
                if n not in cl:
                    cl[n] = S.clone(heap[n])
            total, _, _ = inject.run_counted(lambda: ops.run_step(step, cl))
            core.CACHE._fuseinfos.clear()
            core.CACHE._fuseinfos.update(saved)
            core.CACHE._fi_hit, core.CACHE._fi_missed, core.CACHE._fi_missed_too_long = counters
            core.clear_lru()
            if "crash_n" not in step:
                step["crash_n"] = 1 + int(step["crash"] * total) if total else 0
            fired, res, exc = inject.run_crashing(lambda: ops.run_step(step, heap), step["crash_n"])
            if isinstance(exc, HarnessError):
                raise exc
            if fired is not None:
                st.stats["fault.crash"] += 1
                st.stats["crashsite." + fired[1]] += 1
                st.log.add("crash", [op, list(fired)])
                # a failed call must not have damaged shared index objects,
                # cached plans or any value still on the heap
                self._audit_heap(st, step, "after-crash")
                return
        else:
            try:
                res = ops.run_step(step, heap)
                exc = None
            except HarnessError:
                raise
            except Exception as e:  # noqa: BLE001
                res, exc = None, e
        if exc is not None:
            st.stats["step.raised"] += 1
            st.log.add("raised", [op, type(exc).__name__])
            if inplace:
                # no claim about the target of a failed in-place call
                for tn in ops.inplace_targets(step):
                    t = heap.get(tn)
                    for n in [n for n, v in heap.items() if v is t]:
                        del heap[n]
            return
        st.stats["step.ok"] += 1
        st.stats["op." + op] += 1
        if "variant" in step:
            st.stats["reach.variant." + step["variant"]] += 1
        # (audited before anything else looks at it: a malformed result must
        # surface as a finding, not as an exception in the bookkeeping below)
        ok = self._audit_value(st, step, vals, res)
        if S.kind_of(res) in "AF":
            st.states.add(core.digest([op, S.structure(res)])[:12])
            ix = res.indices
            if any(i.subinfo is not None and any(s.subinfo is not None for s in i.subinfo.indices)
                   for i in ix):
                st.stats["reach.fused_of_fused"] += 1
            if isinstance(res, sr.FermionicArray):
                if len(S.raw_oddpos(res)) > 1:
                    st.stats["reach.multi_label"] += 1
                if S.raw_phases(res):
                    st.stats["reach.pending_result"] += 1
        st.log.add("ok", [op, S.structure(res) if S.kind_of(res) in "AF" else S.kind_of(res)])
        if not ok:
            # known finding: the invalid value is not fed back
            if inplace:
                t = vals[0]
                for n in [n for n, v in heap.items() if v is t]:
                    del heap[n]
            return
        ops.bind(step, heap, res)

    def gate(self, stats, agg, tier):
        probs = []
        if agg["runs"] >= 100:
            for k in ("oracle.audited", "fault.flush", "fault.shuffle", "fault.crash",
                      "reach.fused_of_fused", "reach.multi_label"):
                if not stats.get(k):
                    probs.append(f"c01: reach probe {k} is zero")
        return probs
