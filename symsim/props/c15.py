"""C15 — results do not depend on call history, caches or threads.

c15a: history / cache differential simulation (this file)
c15b: crash-point simulation of the default-mode context manager
c15c: deterministic thread-interleaving simulation (sched_threads.py)
"""

import copy
import random

from .. import core, ops, inject, specs, snap as S
from ..core import Violation, HarnessError, AC
from ..engine import EngineBase, State

CACHE_OPS = {
    "new": 2, "fuse": 9, "unfuse": 4, "unfuse_all": 3, "reshape": 5,
    "tensordot": 7, "align_axes": 3, "transpose": 3, "conj": 3, "dagger": 2,
    "svd_truncated": 2, "squeeze": 1, "expand_dims": 1, "sync_charges": 2,
    "multiply_diagonal": 2, "matmul": 1, "einsum": 1, "qr": 1, "copy": 1,
    "tdot_scalar": 1, "sparsity": 1, "reassemble": 1, "expm": 1, "index_ops": 1,
}

UNARY_ECHO = {
    "fuse", "unfuse", "unfuse_all", "reshape", "transpose", "conj", "dagger",
    "squeeze", "expand_dims", "sync_charges", "svd_truncated", "qr", "copy",
    "einsum",
}


class C15A(EngineBase):
    prop = "C15"
    name = "c15a"
    share = 0.45
    chunk = 25
    state_measure = ("distinct fuse-cache content signatures (hash of the ordered "
                     "key list + limits) observed after steps")

    def make_config(self, streams, tier):
        r = streams.get("config")
        K = 4
        cfgs = []
        for k in range(K):
            cfgs.append({
                "maxsize": r.choice([1, 1, 2, 3, 8192, 8192]),
                "maxsectors": r.choice([1, 4, 512, 512, 512]),
            })
        return {
            "configs": cfgs,
            "sparsity": r.choice([0.0, 0.15, 0.4]),
            "kinds": r.choice([["A", "F"], ["F"], ["A"]]),
            "syms": r.choice([["Z2", "U1"], ["Z2", "U1"], ["Z2"], ["U1"], ["Z2Z2"],
                              ["U1U1"], ["Z2", "U1", "Z2Z2", "U1U1"]]),
            "n_macro": r.choice([8, 12, 16]) if tier == "quick" else r.choice([12, 20, 30]),
            "p_event": r.choice([0.1, 0.3, 0.5]),
            "p_echo": r.choice([0.3, 0.5, 0.7]),
            "wseed": r.randrange(2**31),
        }

    def start(self, config):
        # pass 0 is the cold reference: cache disabled, lru cleared per step
        core.world_reset(0, 512)
        st = State()
        st.config = config
        st.heap = {}
        st.ctx = None
        st.seen = []
        st.ref = []
        st.roots = {}      # root name -> spec
        st.rootof = {}     # value name -> root name
        st.lineage = {}    # root name -> [unary steps]
        st.binaries = []   # tensordot-like steps between two roots
        st.states = set()
        return st

    # ------------------------------------------------------------ generate
    def _ctx(self, st, rng):
        if st.ctx is None:
            cfg = st.config
            st.ctx = ops.Ctx(rng, kinds=tuple(cfg["kinds"]), syms=tuple(cfg["syms"]),
                             p_inplace=0.0, sparsity=cfg["sparsity"], max_heap=16)
            st.ctx.weights = ops.swarm_weights(
                random.Random(cfg["wseed"]), base=CACHE_OPS, p_off=0.15,
                keep=("new", "fuse", "tensordot", "reshape"))
            for k in st.ctx.weights:
                st.ctx.weights[k] *= CACHE_OPS[k] / ops.GENERATORS[k][1]
        return st.ctx

    def _siblings(self, st, rng):
        """Sub-index-structure family: several arrays over the *same* indices
        that each miss a different sector, pushed through fuse -> (an
        operation that plans on the fused index) -> unfuse. Their fused
        indices can agree in charge table, direction and sub-indices and
        differ only in which sub-sectors make up each fused charge."""
        ctx = st.ctx
        sym = rng.choice(list(ctx.syms))
        kind = rng.choice(list(ctx.kinds))
        nd = rng.choice([3, 3, 4, 4])
        d = rng.choice([1, 2, 2])
        pool = specs.CHARGE_POOL[sym]
        idx = []
        for _ in range(nd):
            cs = sorted(rng.sample(pool, 2))
            idx.append({"cm": [[core.jsonable(c), d] for c in cs], "dual": rng.random() < 0.5})
        base = ctx.new_spec(kind=kind, sym=sym, indices=idx, sparsity=0.0)
        secs = [core.untuple(x) for x in base["sectors"]]
        if len(secs) < 3:
            return None
        nsib = rng.choice([2, 2, 3])
        g1 = rng.sample(range(nd), 2)
        mode = rng.choice(["fuse2", "tensordot", "reshape", "fuse2", "fuse3"])
        # family members: each misses a different sector, or (self-inverse
        # groups, where this keeps every sector valid) has one index of the
        # first fused group pointing the other way
        members = []
        flip_ok = sym in ("Z2", "Z2Z2")
        drops = rng.sample(range(len(secs)), min(nsib, len(secs)))
        for k in drops:
            v = dict(base)
            if flip_ok and rng.random() < 0.4:
                idx2 = copy.deepcopy(idx)
                j = rng.choice(g1)
                idx2[j]["dual"] = not idx2[j]["dual"]
                v["indices"] = core.jsonable(idx2)
                v["sectors"] = core.jsonable(secs)
                tag = "sibling-dual"
            else:
                v["sectors"] = core.jsonable([x for i, x in enumerate(secs) if i != k])
                tag = "sibling"
            v["seed"] = rng.randrange(2**31)
            members.append((tag, v))
        if flip_ok and rng.random() < 0.5:
            members.append(("sibling", dict(base, seed=rng.randrange(2**31))))
        out = []
        partner = None
        if mode == "tensordot":
            ax = [a for a in range(nd) if a not in g1][-1]
            # position of that axis after the first fuse
            pos = min(g1)
            rest = [a for a in range(nd) if a not in g1]
            new_order = rest[:]
            new_order.insert(len([a for a in rest if a < pos]), "g")
            ax_f = new_order.index(ax)
            pspec = ctx.new_spec(kind=kind, sym=sym, static=base["static"], dtype=base["dtype"],
                                 indices=[specs.conj_index_spec(idx[ax]), specs.gen_index(rng, sym)],
                                 sparsity=0.0)
            partner = ctx.fresh()
            out.append({"op": "new", "in": [], "out": [partner], "a": {"spec": pspec}})
        for tag, v in members:
            n0 = ctx.fresh()
            out.append({"op": "new", "in": [], "out": [n0], "a": {"spec": v}, "variant": tag})
            n1 = ctx.fresh()
            out.append({"op": "fuse", "in": [n0], "out": [n1], "a": {"groups": [list(g1)]}, "echo": "sibling"})
            n2 = ctx.fresh()
            if mode in ("fuse2", "fuse3"):
                out.append({"op": "fuse", "in": [n1], "out": [n2],
                            "a": {"groups": [[0, 1]] if rng.random() < 0.7 else [[1, 0]]}, "echo": "sibling"})
                if mode == "fuse3" and nd >= 4:
                    # a third level: the plan now depends on structure two
                    # levels below the index it fuses
                    n2b = ctx.fresh()
                    out.append({"op": "fuse", "in": [n2], "out": [n2b],
                                "a": {"groups": [[0, 1]]}, "echo": "sibling"})
                    n2 = n2b
            elif mode == "reshape":
                out.append({"op": "reshape", "in": [n1], "out": [n2], "a": {"shape": [-1]}, "echo": "sibling"})
            else:
                out.append({"op": "tensordot", "in": [n1, partner], "out": [n2],
                            "a": {"axes": [[ax_f], [0]], "mode": "fused"}, "echo": "sibling"})
            n3 = ctx.fresh()
            out.append({"op": "unfuse_all", "in": [n2], "out": [n3], "a": {}, "echo": "sibling"})
            if rng.random() < 0.35:
                # the plain twin of the fused array (same charge tables and
                # directions, no sub-index structure) through the same second
                # operation, before or after the fused one
                tw = []
                n1p = ctx.fresh()
                tw.append({"op": "plain_twin", "in": [n1], "out": [n1p], "a": {}, "variant": "plain-twin"})
                second = copy.deepcopy(out[-2] if mode != "fuse3" or nd < 4 else out[-3])
                if second["in"][0] == n1:
                    second["in"][0] = n1p
                    second["out"] = [ctx.fresh()]
                    second["echo"] = "plain-twin"
                    tw.append(second)
                    tw.append({"op": "unfuse_all", "in": [second["out"][0]], "out": [ctx.fresh()],
                               "a": {}, "echo": "plain-twin"})
                    if rng.random() < 0.5:
                        # twin first: the fused array then meets the twin's plan
                        k0 = next(i for i, s_ in enumerate(out) if s_["out"] == [n1]) + 1
                        out[k0:k0] = tw
                    else:
                        out.extend(tw)
        return out

    def _echo(self, st, rng):
        """Re-issue an earlier lineage on a near-identical array."""
        ctx = st.ctx
        if rng.random() < 0.2:
            sib = self._siblings(st, rng)
            if sib:
                return sib
        roots = [r for r in st.roots if st.lineage.get(r)]
        if st.binaries and rng.random() < 0.3:
            stp = rng.choice(st.binaries)
            na, nb = stp["in"]
            which = rng.choice([0, 1])
            rn = stp["in"][which]
            if rn not in st.roots:
                return None
            kind, v = specs.variant_of(rng, st.roots[rn], ctx.labels,
                                       kinds=["sector", "data", "sector"])
            if v is None:
                return None
            nn = ctx.fresh()
            new = copy.deepcopy(stp)
            new["in"] = [nn if i == which else n for i, n in enumerate(stp["in"])]
            new["out"] = [ctx.fresh() for _ in stp["out"]]
            new["echo"] = "binary:" + kind
            return [{"op": "new", "in": [], "out": [nn], "a": {"spec": v}, "variant": kind}, new]
        if not roots:
            return None
        r = rng.choice(roots)
        spec = st.roots[r]
        lin = st.lineage[r]
        out = []
        nn = ctx.fresh()
        mode = rng.random()
        regroup = False
        if mode < 0.6:
            kind, v = specs.variant_of(rng, spec, ctx.labels)
            if v is None:
                return None
            out.append({"op": "new", "in": [], "out": [nn], "a": {"spec": v}, "variant": kind})
        elif mode < 0.75 and any(s["op"] == "fuse" for s in lin):
            # same array, same lineage, but the axes inside each fused group
            # are listed in another order: same shapes, different sub-index
            # structure
            kind = "regroup"
            regroup = True
            out.append({"op": "copy", "in": [r], "out": [nn], "a": {}, "variant": "regroup"})
        else:
            # derived after the base has been used: shares index objects
            kind = rng.choice(["conj", "sync_charges", "copy", "dagger-dagger"])
            if r not in st.heap:
                return None
            if kind == "dagger-dagger":
                t = ctx.fresh()
                out.append({"op": "dagger", "in": [r], "out": [t], "a": {}})
                out.append({"op": "dagger", "in": [t], "out": [nn], "a": {}})
            else:
                out.append({"op": kind, "in": [r], "out": [nn], "a": {}, "variant": "derived:" + kind})
        ren = {r: nn}
        k = rng.randint(1, len(lin))
        for stp in lin[:k]:
            if any(n not in ren for n in stp["in"]):
                continue
            new = copy.deepcopy(stp)
            new["in"] = [ren[n] for n in stp["in"]]
            new["out"] = [ctx.fresh() for _ in stp["out"]]
            new["echo"] = kind
            if regroup and new["op"] == "fuse":
                gs = [list(g) for g in new["a"]["groups"]]
                for g in gs:
                    if len(g) > 1:
                        g.reverse()
                new["a"]["groups"] = gs
                regroup = False
            for o, n2 in zip(stp["out"], new["out"]):
                ren[o] = n2
            out.append(new)
        return out

    def gen_macro(self, st, rng):
        cfg = st.config
        ctx = self._ctx(st, rng)
        steps = []
        for k in range(len(cfg["configs"])):
            if rng.random() < cfg["p_event"]:
                steps.append({"op": "@cache", "cfg": k, "a": inject.gen_cache_event(rng)})
        new = None
        if rng.random() < cfg["p_echo"]:
            new = self._echo(st, rng)
        if not new:
            new = ops.gen_steps(ctx, st.heap)
            if rng.random() < 0.25 and new and new[-1]["op"] not in ("new", "del", "newvec"):
                # the same call again: turns misses into hits in warm configs
                rep = copy.deepcopy(new[-1])
                rep["out"] = [ctx.fresh() for _ in rep["out"]]
                rep["repeat"] = True
                new.append(rep)
        return steps + new

    def _track(self, st, step):
        """Book-keeping of roots and lineages for the echo generator."""
        op = step["op"]
        if op == "new":
            if "indices" not in step["a"]["spec"]:
                return
            n = step["out"][0]
            st.roots[n] = step["a"]["spec"]
            st.rootof[n] = n
            st.lineage.setdefault(n, [])
            return
        ins = step.get("in", [])
        if op in UNARY_ECHO and len(ins) == 1 and ins[0] in st.rootof:
            r = st.rootof[ins[0]]
            if len(st.lineage[r]) < 6 and "echo" not in step:
                st.lineage[r].append(step)
                for o in step["out"]:
                    st.rootof[o] = r
        if op in ("tensordot", "align_axes") and len(ins) == 2 and all(
                n in st.roots for n in ins) and "echo" not in step:
            st.binaries.append(step)

    # ------------------------------------------------------------- execute
    @staticmethod
    def _run_one(heap, step, fresh_operands=False):
        op = step["op"]
        if any(n not in heap for n in step.get("in", [])):
            return ("skip",)
        if op == "del":
            ops.bind(step, heap, None)
            return ("del",)
        src = heap
        if fresh_operands and step.get("in"):
            src = {}
            for n in step["in"]:
                if n not in src:
                    src[n] = S.clone(heap[n])
        try:
            res = ops.run_step(step, src)
        except HarnessError:
            raise
        except Exception as e:  # noqa: BLE001
            return ("raised", type(e).__name__, str(e)[:80])
        ops.bind(step, heap, res)
        return ("ok", S.snap(res))

    def exec_step(self, st, step):
        st.seen.append(step)
        if "cfg" in step:
            st.ref.append(None)
            return
        # cold reference: every cache, memo and module-level container of the
        # library is put back to its import-time content before each step, and
        # the operands are rebuilt through public constructors (fresh index
        # objects: no per-object memo or lazily created attribute survives),
        # so the reference value is a function of the arguments' values only
        core.world_reset(0, 512)
        out = self._run_one(st.heap, step, fresh_operands=True)
        st.ref.append(out)
        if out[0] == "ok":
            st.stats["step.ok"] += 1
            st.stats["op." + step["op"]] += 1
            if "variant" in step:
                st.stats["reach.variant." + step["variant"]] += 1
            if "echo" in step:
                st.stats["reach.echo"] += 1
            self._track(st, step)
        elif out[0] == "raised":
            st.stats["step.raised"] += 1
        st.log.add(out[0], [step["op"], out[1] if out[0] == "raised" else None])

    def finish(self, st):
        cfgs = st.config["configs"]
        for k, cfg in enumerate(cfgs):
            core.world_reset(cfg["maxsize"], cfg["maxsectors"])
            heap = {}
            for i, step in enumerate(st.seen):
                if "cfg" in step:
                    if step["cfg"] == k:
                        tag = inject.apply_cache_event(step["a"], heap)
                        if tag:
                            st.stats["fault.cache." + tag] += 1
                    continue
                ref = st.ref[i]
                size_before = len(core.CACHE._fuseinfos)
                missed_before = core.CACHE._fi_missed
                out = self._run_one(heap, step)
                if core.CACHE._fi_missed > missed_before and len(core.CACHE._fuseinfos) - size_before < core.CACHE._fi_missed - missed_before:
                    st.stats["fault.cache.lru_eviction"] += 1
                st.states.add(core.digest([list(core.CACHE._fuseinfos.keys()),
                                           core.CACHE._fuseinfo_cache_maxsize])[:12])
                self._compare(st, k, i, step, ref, out)
            st.stats["cache.hit"] += core.CACHE._fi_hit
            st.stats["cache.miss"] += core.CACHE._fi_missed
            st.stats["cache.too_many_sectors"] += core.CACHE._fi_missed_too_long
            st.log.add("config-done", [k, core.CACHE._fi_hit, core.CACHE._fi_missed])
        if st.stats["cache.hit"]:
            st.stats["fault.cache.warm_hit"] += st.stats["cache.hit"]

    def _compare(self, st, k, i, step, ref, out):
        op = step["op"]
        if ref[0] != out[0]:
            self.report(st, "history-independent", op,
                        f"config {k} step {i}: reference {ref[:2]} but got {out[:2]}",
                        ["raise-mismatch"])
            return
        if ref[0] == "raised":
            if ref[1] != out[1]:
                self.report(st, "history-independent", op,
                            f"config {k} step {i}: reference raised {ref[1]} but got {out[1]}",
                            ["raise-mismatch"])
            return
        if ref[0] != "ok":
            return
        st.stats["oracle.compared"] += 1
        why = S.snap_close(ref[1], out[1])
        if why:
            self.report(st, "history-independent", op,
                        f"config {k} (maxsize={st.config['configs'][k]['maxsize']}) step {i}: "
                        f"differs from cold reference: {why}", ["value"])

    def gate(self, stats, agg, tier):
        probs = []
        if agg["per_engine"].get(self.name, 0) >= 50:
            # only what the simulator itself injects or evaluates is gated: the
            # library's own cache counters may legitimately change or vanish
            for k in ("oracle.compared", "reach.echo", "fault.cache.clear_lru"):
                if not stats.get(k):
                    probs.append(f"c15a: reach probe {k} is zero")
        return probs


# ======================================================================
# c15b — crash-point simulation of the default-mode context manager
# ======================================================================

MODES = ["auto", "fused", "blockwise"]
CM_FRAMES = {"default_tensordot_mode", "get_default_tensordot_mode",
             "set_default_tensordot_mode"}


class UserError(Exception):
    """An ordinary exception raised by user code inside the with-body."""


MAX_CRASH_POINTS = 300


class C15B(EngineBase):
    prop = "C15"
    name = "c15b"
    share = 0.15
    chunk = 20

    def make_config(self, streams, tier):
        r = streams.get("config")
        depth = r.choice([1, 1, 2, 3])
        exitk = r.choice(["crash", "crash", "crash", "exception", "return", "break", "normal",
                          "generator_close", "decorator", "decorator_exception", "reuse_cm",
                          "reenter_cm", "decorator_recursive", "invalid_mode",
                          "deferred_cm", "deferred_decorator"])
        nest = [r.choice(MODES) for _ in range(depth)]
        if exitk == "invalid_mode":
            # a name that is not a mode: whoever raises (the block at entry or
            # the first mode=None contraction inside it), the default survives
            nest[r.randrange(depth)] = r.choice(["fuse", "block", "Auto", ""])
        return {
            "outer": r.choice(MODES),
            "outer_none": r.random() < 0.3,
            "nest": nest,
            "exit": exitk,
            "exit_at": r.randint(0, 3),
            "crash": r.random(),
            "all_points": tier == "thorough" and exitk == "crash" and r.random() < 0.5,
            "inner_set": r.choice([None, None, "fused", "blockwise"]),
            "kinds": r.choice([["A"], ["F"], ["A", "F"]]),
            "syms": r.choice([["Z2"], ["U1"], ["Z2Z2"], ["U1U1"]]),
            "sparsity": r.choice([0.0, 0.3]),
            "n_macro": r.choice([2, 3, 4]),
        }

    def start(self, config):
        core.world_reset()
        st = State()
        st.config = config
        st.heap = {}
        st.ctx = None
        st.body = []
        return st

    def gen_macro(self, st, rng):
        cfg = st.config
        if st.ctx is None:
            st.ctx = ops.Ctx(rng, kinds=tuple(cfg["kinds"]), syms=tuple(cfg["syms"]),
                             p_inplace=0.0, sparsity=cfg["sparsity"], styles=False)
        ctx = st.ctx
        out = []
        # one body call: mostly a contraction with mode=None, built on fresh operands
        k = rng.random()
        if k < 0.7 or not st.heap:
            steps = ops.g_tensordot(ctx, st.heap) if st.heap else None
            if not steps:
                return ops.g_new(ctx, st.heap)
            steps[-1]["a"]["mode"] = None
            steps[-1]["a"].pop("preserve_array", None)
            # through the function and through autoray dispatch alike
            steps[-1]["a"]["style"] = rng.choice(["method", "do"])
        elif k < 0.85:
            steps = ops.g_fuse(ctx, st.heap) or ops.g_new(ctx, st.heap)
        else:
            steps = ops.g_reshape(ctx, st.heap) or ops.g_new(ctx, st.heap)
        for s in steps[:-1]:
            out.append(s)
        last = dict(steps[-1])
        if last["op"] not in ("new", "newvec"):
            last["body"] = True
        out.append(last)
        return out

    def exec_step(self, st, step):
        if step.get("body"):
            st.body.append(step)
            return
        if any(n not in st.heap for n in step.get("in", [])):
            return
        try:
            res = ops.run_step(step, st.heap)
        except HarnessError:
            raise
        except Exception:  # noqa: BLE001
            return
        ops.bind(step, st.heap, res)

    # ---------------------------------------------------------- scenario
    def _scenario(self, st, checks):
        """Runs the nested-with scenario; ``checks`` collects oracle failures
        as (where, detail). Propagating exceptions are returned."""
        cfg = st.config
        modes = cfg["nest"]
        heap = dict(st.heap)
        body = [s for s in st.body if all(n in heap for n in s.get("in", []))]
        get = core.sr.get_default_tensordot_mode

        def run_body():
            for i, s in enumerate(body):
                if cfg["exit"] == "exception" and i == min(cfg["exit_at"], len(body) - 1):
                    raise UserError("user code failed")
                if cfg["exit"] in ("return", "break") and i == min(cfg["exit_at"], len(body) - 1):
                    return "early"
                try:
                    res = ops.run_step(s, heap)
                except (core.SimCrash, HarnessError):
                    raise
                except Exception:  # noqa: BLE001 - raising library call is not our business here
                    continue
                if s["op"] == "tensordot" and s["a"].get("mode", 0) is None:
                    cur = get()
                    s2 = copy.deepcopy(s)
                    s2["a"]["mode"] = cur
                    try:
                        res2 = ops.run_step(s2, heap)
                    except (core.SimCrash, HarnessError):
                        raise
                    except Exception:  # noqa: BLE001
                        checks.append(("mode-none-equals-explicit",
                                       f"mode=None ok but mode={cur} raised"))
                        continue
                    why = S.snap_close(S.snap(res), S.snap(res2))
                    if why:
                        checks.append(("mode-none-equals-explicit",
                                       f"mode=None under default {cur} differs from explicit: {why}"))
                    st.stats["oracle.mode_none_compared"] += 1
            if cfg["inner_set"] is not None:
                core.sr.set_default_tensordot_mode(cfg["inner_set"])
            return "done"

        def probe(tag):
            """mode=None must mean the default that is current *now*: before,
            between and after the blocks, not only inside the innermost one."""
            for s in body:
                if s["op"] == "tensordot" and s["a"].get("mode", 0) is None:
                    cur = get()
                    s2 = copy.deepcopy(s)
                    s2["a"]["mode"] = cur
                    try:
                        r1 = ops.run_step(s, dict(heap))
                    except (core.SimCrash, HarnessError):
                        raise
                    except Exception as e1:  # noqa: BLE001
                        r1 = ("raised", type(e1).__name__)
                    try:
                        r2 = ops.run_step(s2, dict(heap))
                    except (core.SimCrash, HarnessError):
                        raise
                    except Exception as e2:  # noqa: BLE001
                        r2 = ("raised", type(e2).__name__)
                    if isinstance(r1, tuple) and r1[:1] == ("raised",) or isinstance(r2, tuple) and r2[:1] == ("raised",):
                        if r1 != r2:
                            checks.append(("mode-none-equals-explicit",
                                           f"{tag}: mode=None gives {r1 if isinstance(r1, tuple) else 'ok'}, "
                                           f"mode={cur!r} gives {r2 if isinstance(r2, tuple) else 'ok'}"))
                        return
                    why = S.snap_close(S.snap(r1), S.snap(r2))
                    if why:
                        checks.append(("mode-none-equals-explicit",
                                       f"{tag}: mode=None under default {cur!r} differs from explicit: {why}"))
                    st.stats["oracle.mode_none_probes"] += 1
                    return

        def nested(level):
            before = get()
            probe(f"before level {level}")
            try:
                if cfg["exit"] == "generator_close" and level == len(modes) - 1:
                    # the block is entered inside a generator that is suspended
                    # at a yield and then closed: GeneratorExit leaves the block
                    def gen():
                        with core.sr.default_tensordot_mode(modes[level]):
                            if get() != modes[level]:
                                checks.append(("mode-inside-block", f"level {level} (generator)"))
                            run_body()
                            yield 1
                            yield 2
                    g = gen()
                    next(g)
                    if cfg["inner_set"] is None and get() != modes[level]:
                        checks.append(("mode-inside-block", f"level {level}: suspended generator"))
                    g.close()
                elif cfg["exit"] == "reenter_cm" and level == len(modes) - 1:
                    # the same manager object entered again while active
                    cm = core.sr.default_tensordot_mode(modes[level])
                    try:
                        with cm:
                            with cm:
                                run_body()
                    except (RuntimeError, AttributeError, TypeError):
                        pass
                elif cfg["exit"] == "decorator_recursive" and level == len(modes) - 1:
                    @core.sr.default_tensordot_mode(modes[level])
                    def rec(depth):
                        if get() != modes[level] and cfg["inner_set"] is None:
                            checks.append(("mode-inside-block", f"level {level} (recursive decorator)"))
                        if depth:
                            rec(depth - 1)
                        else:
                            run_body()
                            if cfg["exit_at"] % 2:
                                raise UserError("user code failed")
                    try:
                        rec(1 + cfg["exit_at"] % 2)
                    except UserError:
                        pass
                elif cfg["exit"] in ("deferred_cm", "deferred_decorator") and level == len(modes) - 1:
                    # the manager (or the decorated function) is made first, the
                    # session default is changed afterwards, and only then is the
                    # block entered: what must come back on exit - normal or via
                    # an exception - is the default found at *entry*
                    other = MODES[(MODES.index(before) + 1 + cfg["exit_at"]) % len(MODES)] \
                        if before in MODES else MODES[cfg["exit_at"] % len(MODES)]

                    def guarded():
                        if get() != modes[level]:
                            checks.append(("mode-inside-block", f"level {level} (deferred)"))
                        run_body()
                        if cfg["exit_at"] % 2:
                            raise UserError("user code failed")
                    try:
                        if cfg["exit"] == "deferred_cm":
                            cm = core.sr.default_tensordot_mode(modes[level])
                            core.sr.set_default_tensordot_mode(other)
                            entry = get()
                            try:
                                with cm:
                                    guarded()
                            except UserError:
                                pass
                        else:
                            decorated2 = core.sr.default_tensordot_mode(modes[level])(guarded)
                            core.sr.set_default_tensordot_mode(other)
                            entry = get()
                            try:
                                decorated2()
                            except UserError:
                                pass
                        if cfg["inner_set"] is None and get() != entry:
                            checks.append(("mode-restored-on-exit",
                                           f"{cfg['exit']}: default is {get()!r} after the block, "
                                           f"was {entry!r} when it was entered"))
                    finally:
                        core.sr.set_default_tensordot_mode(before)
                elif cfg["exit"] == "reuse_cm" and level == len(modes) - 1:
                    # one manager object entered twice: whatever the second
                    # entry does (contextlib refuses it), the default survives
                    cm = core.sr.default_tensordot_mode(modes[level])
                    with cm:
                        run_body()
                    if cfg["inner_set"] is None and get() != before:
                        checks.append(("mode-restored-on-exit", f"reuse: {get()!r} after first use, was {before!r}"))
                    mid = get()
                    try:
                        with cm:
                            run_body()
                    except (RuntimeError, AttributeError, TypeError):
                        pass
                    if cfg["inner_set"] is None and get() != mid:
                        checks.append(("mode-restored-on-exit", f"reuse: {get()!r} after second use, was {mid!r}"))
                elif cfg["exit"] in ("decorator", "decorator_exception") and level == len(modes) - 1:
                    @core.sr.default_tensordot_mode(modes[level])
                    def decorated():
                        if get() != modes[level]:
                            checks.append(("mode-inside-block", f"level {level} (decorator)"))
                        run_body()
                        if cfg["exit"] == "decorator_exception":
                            raise UserError("user code failed")
                    decorated()
                    # a second call must behave the same (the manager is re-created)
                    if get() != before:
                        checks.append(("mode-restored-on-exit", f"decorator: {get()!r} after first call, was {before!r}"))
                    decorated()
                elif cfg["exit"] == "break":
                    for _ in range(1):
                        with core.sr.default_tensordot_mode(modes[level]):
                            if get() != modes[level]:
                                checks.append(("mode-inside-block", f"level {level}: {get()} != {modes[level]}"))
                            if level + 1 < len(modes):
                                nested(level + 1)
                                if get() != modes[level]:
                                    checks.append(("mode-restored-after-inner-exit",
                                                   f"level {level}: {get()} after inner block, expected {modes[level]}"))
                            else:
                                run_body()
                            break
                else:
                    with core.sr.default_tensordot_mode(modes[level]):
                        if get() != modes[level]:
                            checks.append(("mode-inside-block", f"level {level}: {get()} != {modes[level]}"))
                        if level + 1 < len(modes):
                            r = nested(level + 1)
                            if get() != modes[level]:
                                checks.append(("mode-restored-after-inner-exit",
                                               f"level {level}: {get()} after inner block, expected {modes[level]}"))
                        else:
                            r = run_body()
                        if cfg["exit"] == "return":
                            return r
            finally:
                now = get()
                if now != before:
                    checks.append(("mode-restored-on-exit",
                                   f"level {level} exit={cfg['exit']}: default is {now!r}, was {before!r} before the block"))

        core.sr.set_default_tensordot_mode(cfg["outer"])
        if cfg["outer_none"]:
            core.sr.set_default_tensordot_mode(None)
            if get() != cfg["outer"]:
                checks.append(("set-none-is-noop", f"{get()} after set(None), was {cfg['outer']}"))
        try:
            nested(0)
        finally:
            probe("after the outermost block")

    def _one(self, st, crash_n):
        core.world_reset()
        checks = []
        exc = None
        fired = None
        if crash_n:
            t = inject.LineTracer(crash_at=crash_n, exclude=CM_FRAMES)
        else:
            t = inject.LineTracer(exclude=CM_FRAMES)
        try:
            with t:
                self._scenario(st, checks)
        except core.SimCrash as e:
            exc = e
            fired = t.fired
        except UserError as e:
            exc = e
        except HarnessError:
            raise
        except (ValueError, KeyError, TypeError) as e:
            # an invalid mode name refused by the library
            if st.config["exit"] != "invalid_mode":
                raise
            exc = e
        final = core.sr.get_default_tensordot_mode()
        if final != st.config["outer"]:
            checks.append(("mode-restored-after-scenario",
                           f"default is {final!r} after the scenario, outer default was {st.config['outer']!r}"
                           f" (exit={st.config['exit']}, crash={fired})"))
        return t.count, fired, checks, exc

    def finish(self, st):
        cfg = st.config
        if not st.body:
            return
        st.stats["step.ok"] += 3  # a scenario always makes progress
        if cfg["exit"] != "crash":
            total, fired, checks, exc = self._one(st, None)
            st.stats["fault.exit." + cfg["exit"]] += 1
            st.log.add("scenario", [cfg["exit"], total])
            self._judge(st, checks)
            return
        total, _, checks, _ = self._one(st, None)
        self._judge(st, checks)
        if total == 0:
            return
        if cfg.get("all_points"):
            points = range(1, total + 1)
            if total > MAX_CRASH_POINTS:
                # crashing at each of n lines re-runs the scenario n times:
                # beyond this size a seeded sample of the lines is taken
                # (one long run must not come near the per-run watchdog)
                pick = random.Random(total * 7919 + cfg.get("exit_at", 0))
                points = sorted(pick.sample(range(1, total + 1), MAX_CRASH_POINTS))
                st.stats["oracle.crash_points_sampled_runs"] += 1
        else:
            if "crash_n" not in cfg:
                cfg["crash_n"] = 1 + int(cfg["crash"] * total)
            points = [cfg["crash_n"]]
        import time as _time
        t_enum = _time.time()
        for n in points:
            if cfg.get("all_points") and _time.time() - t_enum > 120:
                # (thorough tier only) a scenario whose body is heavy numerical
                # work: the enumeration stops rather than approach the per-run
                # watchdog; the points not reached are counted
                st.stats["oracle.crash_points_time_capped_runs"] += 1
                break
            _, fired, checks, exc = self._one(st, n)
            if fired is not None:
                st.stats["fault.crash_in_body"] += 1
                st.stats["crashsite." + fired[1]] += 1
            st.log.add("crash", [n, list(fired) if fired else None])
            if checks and cfg.get("all_points"):
                cfg["all_points"] = False
                cfg["crash_n"] = n
            self._judge(st, checks)

    def _judge(self, st, checks):
        st.stats["oracle.scenarios"] += 1
        for where, detail in checks:
            self.report(st, "mode-context", where, detail, [st.config["exit"]])

    def gate(self, stats, agg, tier):
        probs = []
        if agg["per_engine"].get(self.name, 0) >= 50:
            for k in ("fault.crash_in_body", "fault.exit.exception", "oracle.mode_none_compared"):
                if not stats.get(k):
                    probs.append(f"c15b: reach probe {k} is zero")
        return probs


# ======================================================================
# c15c — deterministic thread-interleaving simulation
# ======================================================================

import collections as _collections  # noqa: E402

from .. import sched_threads as T  # noqa: E402

THREAD_OPS = {
    "fuse": 9, "unfuse": 3, "unfuse_all": 2, "reshape": 4, "tensordot": 8,
    "to_dense": 2, "phase": 2, "conj": 3, "dagger": 2, "qr": 1, "svd": 1,
    "unary": 1, "transpose": 3, "einsum": 1, "copy": 1, "align_axes": 1,
    "svd_truncated": 1, "multiply_diagonal": 1, "matmul": 3, "arith2": 1,
    "solve": 1, "eigh": 1, "trace": 1, "squeeze": 1, "expand_dims": 1, "sync_charges": 1,
    "sparsity": 2, "new": 2, "reassemble": 1, "tdot_scalar": 1, "expm": 1,
}

_TIERS = None
_WARM = False


def _tiers():
    global _TIERS
    if _TIERS is None:
        _TIERS = T.compute_hot_set()
    return _TIERS


def _warmup():
    """Fill the lookup caches of autoray / singledispatch once per process,
    untraced, so that traced runs do not depend on process history."""
    global _WARM
    if _WARM:
        return
    _WARM = True
    eng = C15A(known=[])
    for run in range(6):
        try:
            eng.generate(987654321, run, "quick")
        except Exception:  # noqa: BLE001
            pass


class C15C(EngineBase):
    prop = "C15"
    name = "c15c"
    share = 0.4
    chunk = 10

    def make_config(self, streams, tier):
        r = streams.get("config")
        kind = r.choice(["biased", "biased", "biased", "pct", "uniform", "breakpoint", "breakpoint"])
        return {
            "nthreads": r.choice([2, 2, 3, 3, 4]),
            "nshared": r.choice([2, 3, 4, 5]),
            "nops": r.choice([2, 3, 4, 6]),
            "npool": r.choice([2, 3, 4]),
            "p_pool": r.choice([0.5, 0.7, 0.9]),
            "maxsize": r.choice([1, 1, 2, 3, 8192]),
            "maxsectors": r.choice([512, 512, 4]),
            "prewarm": r.random() < 0.4,
            "policy": kind,
            "p_a": r.choice([0.1, 0.3, 0.5]),
            "p_b": r.choice([0.02, 0.1]),
            "p_cold": r.choice([0.0005, 0.002]) if kind == "biased" else r.choice([0.002, 0.02]),
            "pct_d": r.choice([1, 2, 3]),
            "bp_tries": 8 if tier == "quick" else 48,
            # fraction of the attribute-storing (tier B) functions that are
            # also pre-emptible between bytecodes in this run
            "instr_b": r.choice([0.0, 0.0, 0.25, 0.5, 1.0]),
            "sched_seed": r.randrange(2**31),
            "kinds": r.choice([["A", "F"], ["F"], ["A"]]),
            "syms": r.choice([["Z2"], ["U1"], ["Z2Z2"], ["U1U1"], ["Z2", "U1"]]),
            "sparsity": r.choice([0.0, 0.15, 0.4]),
            "n_macro": 1,
            # a shared array with a fused leg next to its plain twin (same
            # tables, no sub-index structure), both given the same calls
            "p_twin": r.choice([0.0, 0.3, 0.6]),
        }

    def start(self, config):
        _warmup()
        core.world_reset(0, 512)
        st = State()
        st.config = config
        st.shared = {}
        st.shared_steps = []
        st.tsteps = _collections.defaultdict(list)
        st.ctx = None
        st.states = set()
        return st

    # ------------------------------------------------------------ generate
    def gen_macro(self, st, rng):
        """The whole program is generated in one macro step, executing in a
        sequential cold world (which is also the reference)."""
        cfg = st.config
        ctx = ops.Ctx(rng, kinds=tuple(cfg["kinds"]), syms=tuple(cfg["syms"]),
                      p_inplace=0.0, sparsity=cfg["sparsity"], styles=False, max_heap=40)
        ctx.weights = {k: v for k, v in THREAD_OPS.items()}
        # (the local operator builders are long pure-Python loops without any
        # shared state: millions of pre-emption points that buy nothing)
        ctx.local_builders = False
        out = []
        heap = {}
        # shared values: fresh arrays and a few derived ones (views, fused,
        # pending signs)
        while len([n for n in heap if n.startswith("s")]) < cfg["nshared"]:
            if heap and rng.random() < 0.4:
                g = rng.choice([ops.g_transpose, ops.g_fuse, ops.g_conj, ops.g_phase])
                steps = g(ctx, heap)
            else:
                steps = ops.g_new(ctx, heap)
            if not steps:
                continue
            for s in steps:
                s = dict(s, shared=True)
                s["out"] = ["s" + o[1:] for o in s["out"]]
                try:
                    res = ops.run_step(s, heap)
                except HarnessError:
                    raise
                except Exception:  # noqa: BLE001
                    continue
                ops.bind(s, heap, res)
                out.append(s)
        # optionally: a fused shared array and its plain twin
        twins = {}
        if rng.random() < cfg.get("p_twin", 0.0):
            def fusedlegs(v):
                return S.kind_of(v) in "AF" and any(ix.subinfo is not None for ix in v.indices)
            cands = sorted(n for n, v in heap.items() if n.startswith("s") and fusedlegs(v))
            if not cands:
                for s in (ops.g_fuse(ctx, heap) or []):
                    s = dict(s, shared=True)
                    s["out"] = ["s" + o[1:] for o in s["out"]]
                    try:
                        res = ops.run_step(s, heap)
                    except HarnessError:
                        raise
                    except Exception:  # noqa: BLE001
                        continue
                    ops.bind(s, heap, res)
                    out.append(s)
                cands = sorted(n for n, v in heap.items() if n.startswith("s") and fusedlegs(v))
            if cands:
                x = rng.choice(cands)
                tw = "s" + ctx.fresh()[1:]
                s = {"op": "plain_twin", "in": [x], "out": [tw], "a": {}, "shared": True}
                try:
                    res = ops.run_step(s, heap)
                    ops.bind(s, heap, res)
                    out.append(s)
                    twins = {x: tw, tw: x}
                    ctx.focus = [x, 8]
                    st.stats["reach.plain_twin_shared"] += 1
                except HarnessError:
                    raise
                except Exception:  # noqa: BLE001
                    pass
        # pool of templates on shared values
        pool = []
        shared_heap = dict(heap)
        tries = 0
        while len(pool) < cfg["npool"] + (2 if twins else 0) and tries < 40:
            tries += 1
            if rng.random() < 0.2:
                # the same constructor call made by several threads
                spec = ctx.new_spec()
                spec["via"] = rng.choice(["random", "from_fill_fn", "from_blocks"])
                pool.append([{"op": "new", "in": [], "out": [ctx.fresh()], "a": {"spec": spec}}])
                continue
            steps = [s_ for s_ in ops.gen_steps(ctx, shared_heap) if s_["op"] != "del"]
            # a template is one call on shared values, possibly preceded by the
            # construction of its (thread-local) partner
            if steps and steps[-1]["op"] not in ("new", "newvec", "del", "copy") and len(steps) <= 4 \
                    and any(n in shared_heap for n in steps[-1]["in"]):
                pool.append(steps)
                if len(steps) == 1 and any(n in twins for n in steps[0]["in"]):
                    # the same call on the twin
                    t2 = copy.deepcopy(steps[0])
                    t2["in"] = [twins.get(n, n) for n in t2["in"]]
                    t2["out"] = [ctx.fresh() for _ in t2["out"]]
                    pool.append([t2])
        # per-thread programs, generated while executing sequentially
        for tid in range(cfg["nthreads"]):
            own = {}
            ns = _collections.ChainMap(own, shared_heap)
            k = 0
            guard = 0
            ren = {}
            while k < cfg["nops"] and guard < 30:
                guard += 1
                if pool and rng.random() < (max(cfg["p_pool"], 0.9) if twins else cfg["p_pool"]):
                    steps = copy.deepcopy(rng.choice(pool))
                else:
                    steps = ops.gen_steps(ctx, dict(ns))
                for s in steps:
                    if s["op"] == "del":
                        continue
                    s = dict(s, thread=tid)
                    # thread-local names: outputs get the thread's prefix, and
                    # later steps of the same macro step (the operation on a
                    # freshly built partner) must refer to the renamed values
                    s["in"] = [ren.get(n, n) for n in s["in"]]
                    outs = []
                    for o in s["out"]:
                        no = o if o.startswith("t") else f"t{tid}_{o}"
                        if no in ns and not o.startswith("t"):
                            no = f"t{tid}_{o}_{k}"
                        ren[o] = no
                        outs.append(no)
                    s["out"] = outs
                    s.pop("shared", None)
                    try:
                        res = ops.run_step(s, ns)
                        ops.bind(s, ns, res)
                    except HarnessError:
                        raise
                    except Exception:  # noqa: BLE001
                        pass
                    out.append(s)
                    k += 1
        return out

    # ------------------------------------------------------------- execute
    def exec_step(self, st, step):
        if step.get("shared"):
            st.shared_steps.append(step)
        elif "thread" in step:
            st.tsteps[step["thread"]].append(step)

    @staticmethod
    def _build_shared(steps):
        heap = {}
        for s in steps:
            if any(n not in heap for n in s.get("in", [])):
                continue
            try:
                res = ops.run_step(s, heap)
            except HarnessError:
                raise
            except Exception:  # noqa: BLE001
                continue
            ops.bind(s, heap, res)
        return heap

    @staticmethod
    def _make_fn(steps, ns, results):
        def fn():
            for s in steps:
                if any(n not in ns for n in s.get("in", [])):
                    results.append(("skip",))
                    continue
                try:
                    res = ops.run_step(s, ns)
                except HarnessError:
                    raise
                except Exception as e:  # noqa: BLE001
                    results.append(("raised", type(e).__name__, str(e)[:100]))
                    continue
                ops.bind(s, ns, res)
                results.append(("ok", res))
        return fn

    def _reference(self, st, discover=False):
        """Each thread's program alone, sequentially, untraced, cold caches."""
        ref = {}
        executed = []
        nthreads_of = {}
        for tid, steps in sorted(st.tsteps.items()):
            core.world_reset(0, 512)
            shared = self._build_shared(st.shared_steps)
            res = []
            fn = self._make_fn(steps, _collections.ChainMap({}, shared), res)
            if discover:
                for c in T.discover_executed(_tiers(), fn):
                    if c not in executed:
                        executed.append(c)
                    nthreads_of[c] = nthreads_of.get(c, 0) + 1
            else:
                fn()
            ref[tid] = [(r[0], S.snap(r[1])) if r[0] == "ok" else r for r in res]
        st.executed_hot = executed
        st.executed_by = nthreads_of
        return ref

    def _concurrent(self, st, policy, instruction_level=True, record_sites=False, post_join=True):
        cfg = st.config
        core.world_reset(cfg["maxsize"], cfg["maxsectors"])
        shared = self._build_shared(st.shared_steps)
        before = {n: S.snap(v) for n, v in shared.items()}
        if cfg["prewarm"]:
            for tid, steps in sorted(st.tsteps.items()):
                for s in steps[:1]:
                    if all(n in shared for n in s.get("in", [])):
                        try:
                            ops.run_step(s, shared)
                        except HarnessError:
                            raise
                        except Exception:  # noqa: BLE001
                            pass
        tids = sorted(st.tsteps)
        results = {tid: [] for tid in tids}
        fns = [self._make_fn(st.tsteps[tid], _collections.ChainMap({}, shared), results[tid])
               for tid in tids]
        extra = []
        fb = cfg.get("instr_b", 0.0)
        only = None
        line_level = True
        if policy.kind == "breakpoint":
            # the only pre-emption point of such a run is the chosen site
            only = []
            for bp in policy.breakpoints:
                if bp[0][0] not in only:
                    only.append(bp[0][0])
            line_level = False
        elif fb:
            tb = sorted((c for c, t in _tiers().items() if t == "B"),
                        key=lambda c: (c.co_filename, c.co_firstlineno, c.co_name))
            pick = random.Random(cfg["sched_seed"] ^ 0x5EED)
            extra = [c for c in tb if pick.random() < fb]
        baton = T.Baton(fns, policy, _tiers(), instruction_level=instruction_level,
                        extra_instruction_codes=extra, line_level=line_level,
                        only_instruction_codes=only)
        baton.record_sites = record_sites
        baton.run()
        # after all threads have joined: the same programs once more,
        # sequentially, on the very same shared arrays and warm hidden state;
        # a race that only damaged memoised state shows up here
        post = {}
        if not record_sites and post_join:
            for tid in tids:
                res = []
                self._make_fn(st.tsteps[tid], _collections.ChainMap({}, shared), res)()
                post[tid] = res
        self._post = post
        return baton, shared, before, {tid: results[tid] for tid in tids}

    def _policy(self, st, hot_events=None, sites=None, rep=0):
        cfg = st.config
        sch = cfg.get("schedule")
        if sch is not None and "bp" in sch:
            code = [c for c in _tiers() if T.code_id(c) == sch["bp"][:3]]
            if not code:
                return T.Policy("sequential")
            pol = T.Policy("breakpoint", rng=random.Random(sch["rng"]),
                           breakpoint=(code[0], -sch["bp"][3] - 1), occurrence=sch["occ"])
            pol.seed = sch["rng"]
            for cid, off2, occ2 in sch.get("more", []):
                c2 = [c for c in _tiers() if T.code_id(c) == cid]
                if c2:
                    pol.breakpoints.append([(c2[0], -off2 - 1), occ2, 0, False])
            pol.release = sch.get("release", "fifo")
            return pol
        if sch is not None:
            return T.Policy("recorded", recorded={int(p): t for p, t in sch["switches"]},
                            recorded_exits=sch["exits"])
        rng = random.Random(cfg["sched_seed"] + 7919 * rep)
        if cfg["policy"] == "breakpoint":
            codes = sites
            if not codes:
                return T.Policy("sequential")
            # windows right around a write to shared state are the classic
            # race windows: 75% of the breakpoints go there
            import dis as _dis
            # a race needs two threads in the same code: functions that more
            # than one thread's program executes count three times
            by = getattr(st, "executed_by", {})
            weights = [max(1, len(T.write_adjacent_offsets(c))) * (3 if by.get(c, 0) >= 2 else 1)
                       for c in codes]
            code = rng.choices(codes, weights=weights)[0]
            near = sorted(T.write_adjacent_offsets(code))
            if near and rng.random() < 0.75:
                off = rng.choice(near)
            else:
                off = rng.choice([i.offset for i in _dis.get_instructions(code)])
            occ = rng.choice([1, 1, 1, 2, 3])
            seed2 = rng.randrange(2**31)
            pol = T.Policy("breakpoint", rng=random.Random(seed2),
                           breakpoint=(code, -off - 1), occurrence=occ)
            pol.seed = seed2
            if rng.random() < 0.35:
                # a second window: another (or the same) site parks a second
                # thread; the parked threads are then released in turn
                code2 = rng.choices(codes, weights=weights)[0] if rng.random() < 0.5 else code
                near2 = sorted(T.write_adjacent_offsets(code2))
                off2 = rng.choice(near2) if near2 and rng.random() < 0.75 else rng.choice(
                    [i.offset for i in _dis.get_instructions(code2)])
                pol.breakpoints.append([(code2, -off2 - 1), rng.choice([1, 1, 2]), 0, False])
                pol.release = rng.choice(["fifo", "lifo"])
            return pol
        if cfg["policy"] == "pct":
            pts = set()
            if hot_events:
                for _ in range(cfg["pct_d"]):
                    pts.add(rng.randint(1, hot_events))
            return T.Policy("pct", rng=rng, pct_points=pts)
        if cfg["policy"] == "uniform":
            return T.Policy("uniform", rng=rng, p_a=cfg["p_cold"], p_b=cfg["p_cold"],
                            p_cold=cfg["p_cold"])
        return T.Policy("biased", rng=rng, p_a=cfg["p_a"], p_b=cfg["p_b"], p_cold=cfg["p_cold"])

    def finish(self, st):
        cfg = st.config
        if not st.tsteps or len(st.tsteps) < 2:
            return
        bp = cfg["policy"] == "breakpoint" and cfg.get("schedule") is None
        ref = self._reference(st, discover=bp)
        hot = None
        sites = None
        if cfg["policy"] == "pct" and cfg.get("schedule") is None:
            dry, _, _, _ = self._concurrent(st, T.Policy("sequential"))
            hot = dry.hot_points
        if bp:
            sites = sorted(st.executed_hot,
                           key=lambda c: (c.co_filename, c.co_firstlineno, c.co_name))
            st.stats["sched.breakpoint_candidate_functions"] += len(sites)
        # a breakpoint run is cheap next to generating the program and its
        # reference, so several sites are tried on the same program
        nrep = 1
        if cfg["policy"] == "breakpoint" and cfg.get("schedule") is None and sites:
            nrep = cfg.get("bp_tries", 12)
        for rep in range(nrep):
            policy = self._policy(st, hot, sites, rep)
            # (the sequential re-run after joining is made for every fourth
            # breakpoint try and for every other kind of run)
            baton, shared, before, results = self._concurrent(
                st, policy, post_join=(nrep == 1 or rep % 4 == 3))
            self._judge_run(st, policy, baton, shared, before, results, ref)

    def _judge_run(self, st, policy, baton, shared, before, results, ref):
        cfg = st.config
        if policy.kind == "breakpoint":
            c, w = policy.breakpoint
            st.schedule = {"bp": T.code_id(c) + [-w - 1], "occ": policy.occurrence,
                           "rng": policy.seed, "release": policy.release,
                           "more": [[T.code_id(b[0][0]), -b[0][1] - 1, b[1]]
                                    for b in policy.breakpoints[1:]]}
            if len(policy.breakpoints) > 1 and all(b[3] for b in policy.breakpoints):
                st.stats["reach.double_breakpoint_fired"] += 1
        else:
            st.schedule = {"switches": [[p, t] for p, t in baton.switches],
                           "exits": baton.exit_picks if policy.kind != "recorded" else cfg["schedule"]["exits"]}
        st.stats["sched.points"] += baton.point
        st.stats["sched.hot_points"] += baton.hot_points
        st.stats["fault.preemption"] += len(baton.switches)
        st.stats["sched.policy." + cfg["policy"]] += 1
        if getattr(policy, "parked", None) is not None:
            st.stats["reach.breakpoint_fired"] += 1
            st.stats["fault.breakpoint_park"] += 1
        hot_sw = 0
        for name, where in baton.switch_sites:
            st.states.add(f"{name}:{where}")
            if where < 0:
                hot_sw += 1
        st.stats["reach.switch_at_instruction"] += hot_sw
        st.stats["cache.hit"] += core.CACHE._fi_hit
        st.stats["cache.miss"] += core.CACHE._fi_missed
        st.stats["step.ok"] += sum(1 for r in results.values() for x in r if x[0] == "ok")
        st.log.add("schedule", [baton.point, st.schedule.get("switches", [])[:50],
                                st.schedule.get("exits"), st.schedule.get("bp")])
        # oracle 3: shared values untouched
        for n, s0 in before.items():
            s1 = S.snap(shared[n])
            if s1 != s0:
                self.report(st, "threads-shared-unchanged", "shared",
                            f"shared value {n} changed in {S.diff_field(s0, s1)} under interleaving", [])
        # oracles 1 + 2: per-thread results equal the sequential reference
        for tid in sorted(results):
            got = results[tid]
            exp = ref[tid]
            if len(got) != len(exp):
                self.report(st, "threads-equal-sequential", "program",
                            f"thread {tid} produced {len(got)} results, reference {len(exp)}", [])
                continue
            for k, (g, e) in enumerate(zip(got, exp)):
                op = st.tsteps[tid][k]["op"]
                if g[0] != e[0] or (g[0] == "raised" and g[1] != e[1]):
                    self.report(st, "threads-equal-sequential", op,
                                f"thread {tid} step {k}: sequential {e[:2] if e[0] != 'ok' else 'ok'} "
                                f"but interleaved {g[:3] if g[0] != 'ok' else 'ok'}", ["raise-mismatch"])
                    continue
                if g[0] == "ok":
                    st.stats["oracle.compared"] += 1
                    why = S.snap_close(e[1], S.snap(g[1]))
                    if why:
                        self.report(st, "threads-equal-sequential", op,
                                    f"thread {tid} step {k}: differs from sequential: {why}", ["value"])
            st.log.add("thread-done", [tid, [g[0] for g in got]])
        for tid in sorted(getattr(self, "_post", {})):
            got = self._post[tid]
            exp = ref[tid]
            for k, (g, e) in enumerate(zip(got, exp)):
                op = st.tsteps[tid][k]["op"]
                if g[0] != e[0] or (g[0] == "raised" and g[1] != e[1]):
                    self.report(st, "after-join-equals-sequential", op,
                                f"after the threads joined, thread {tid}'s step {k} run again sequentially: "
                                f"{g[:3] if g[0] != 'ok' else 'ok'} but the reference {e[:2] if e[0] != 'ok' else 'ok'}",
                                ["raise-mismatch"])
                elif g[0] == "ok":
                    st.stats["oracle.post_join_compared"] += 1
                    why = S.snap_close(e[1], S.snap(g[1]))
                    if why:
                        self.report(st, "after-join-equals-sequential", op,
                                    f"after the threads joined, thread {tid}'s step {k} run again "
                                    f"sequentially differs from the reference: {why}", ["value"])

    # the schedule is part of the replay file
    def _outcome(self, st, violation):
        out = super()._outcome(st, violation)
        out["schedule"] = getattr(st, "schedule", None)
        return out

    def generate(self, seed, run, tier="quick"):
        program, out = super().generate(seed, run, tier)
        if out.get("schedule") is not None:
            program["config"] = dict(program["config"], schedule=out["schedule"])
        return program, out

    def strip(self, program):
        cfg = {k: v for k, v in program["config"].items() if k != "schedule"}
        return dict(program, config=cfg)

    def seal(self, program):
        p = self.strip(program)
        out = self.execute(p)
        if out.get("schedule") is not None:
            p["config"] = dict(p["config"], schedule=out["schedule"])
        return p, out

    def gate(self, stats, agg, tier):
        probs = []
        if agg["per_engine"].get(self.name, 0) >= 30:
            for k in ("fault.preemption", "oracle.compared"):
                if not stats.get(k):
                    probs.append(f"c15c: reach probe {k} is zero")
        return probs
