"""C15 — results do not depend on call history, caches or threads.

c15a: history / cache differential simulation (this file)
c15b: crash-point simulation of the default-mode context manager
c15c: deterministic thread-interleaving simulation (sched_threads.py)
"""

import copy
import random

from .. import core, ops, inject, specs, snap as S
from ..core import Violation, HarnessError, AC
from ..engine import EngineBase, State

CACHE_OPS = {
    "new": 2, "fuse": 9, "unfuse": 4, "unfuse_all": 3, "reshape": 5,
    "tensordot": 7, "align_axes": 3, "transpose": 3, "conj": 3, "dagger": 2,
    "svd_truncated": 2, "squeeze": 1, "expand_dims": 1, "sync_charges": 2,
    "multiply_diagonal": 2, "matmul": 1, "einsum": 1, "qr": 1, "copy": 1,
}

UNARY_ECHO = {
    "fuse", "unfuse", "unfuse_all", "reshape", "transpose", "conj", "dagger",
    "squeeze", "expand_dims", "sync_charges", "svd_truncated", "qr", "copy",
    "einsum",
}


class C15A(EngineBase):
    prop = "C15"
    name = "c15a"
    share = 0.45
    chunk = 25
    state_measure = ("distinct fuse-cache content signatures (hash of the ordered "
                     "key list + limits) observed after steps")

    def make_config(self, streams, tier):
        r = streams.get("config")
        K = 4
        cfgs = []
        for k in range(K):
            cfgs.append({
                "maxsize": r.choice([1, 1, 2, 3, 8192, 8192]),
                "maxsectors": r.choice([1, 4, 512, 512, 512]),
            })
        return {
            "configs": cfgs,
            "sparsity": r.choice([0.0, 0.15, 0.4]),
            "kinds": r.choice([["A", "F"], ["F"], ["A"]]),
            "syms": r.choice([["Z2", "U1"], ["Z2", "U1"], ["Z2"], ["U1"], ["Z2Z2"],
                              ["U1U1"], ["Z2", "U1", "Z2Z2", "U1U1"]]),
            "n_macro": r.choice([8, 12, 16]) if tier == "quick" else r.choice([12, 20, 30]),
            "p_event": r.choice([0.1, 0.3, 0.5]),
            "p_echo": r.choice([0.3, 0.5, 0.7]),
            "wseed": r.randrange(2**31),
        }

    def start(self, config):
        # pass 0 is the cold reference: cache disabled, lru cleared per step
        core.world_reset(0, 512)
        st = State()
        st.config = config
        st.heap = {}
        st.ctx = None
        st.seen = []
        st.ref = []
        st.roots = {}      # root name -> spec
        st.rootof = {}     # value name -> root name
        st.lineage = {}    # root name -> [unary steps]
        st.binaries = []   # tensordot-like steps between two roots
        st.states = set()
        return st

    # ------------------------------------------------------------ generate
    def _ctx(self, st, rng):
        if st.ctx is None:
            cfg = st.config
            st.ctx = ops.Ctx(rng, kinds=tuple(cfg["kinds"]), syms=tuple(cfg["syms"]),
                             p_inplace=0.0, sparsity=cfg["sparsity"], max_heap=16)
            st.ctx.weights = ops.swarm_weights(
                random.Random(cfg["wseed"]), base=CACHE_OPS, p_off=0.15,
                keep=("new", "fuse", "tensordot", "reshape"))
            for k in st.ctx.weights:
                st.ctx.weights[k] *= CACHE_OPS[k] / ops.GENERATORS[k][1]
        return st.ctx

    def _echo(self, st, rng):
        """Re-issue an earlier lineage on a near-identical array."""
        ctx = st.ctx
        roots = [r for r in st.roots if st.lineage.get(r)]
        if st.binaries and rng.random() < 0.3:
            stp = rng.choice(st.binaries)
            na, nb = stp["in"]
            which = rng.choice([0, 1])
            rn = stp["in"][which]
            if rn not in st.roots:
                return None
            kind, v = specs.variant_of(rng, st.roots[rn], ctx.labels,
                                       kinds=["sector", "data", "sector"])
            if v is None:
                return None
            nn = ctx.fresh()
            new = copy.deepcopy(stp)
            new["in"] = [nn if i == which else n for i, n in enumerate(stp["in"])]
            new["out"] = [ctx.fresh() for _ in stp["out"]]
            new["echo"] = "binary:" + kind
            return [{"op": "new", "in": [], "out": [nn], "a": {"spec": v}, "variant": kind}, new]
        if not roots:
            return None
        r = rng.choice(roots)
        spec = st.roots[r]
        lin = st.lineage[r]
        out = []
        nn = ctx.fresh()
        mode = rng.random()
        regroup = False
        if mode < 0.6:
            kind, v = specs.variant_of(rng, spec, ctx.labels)
            if v is None:
                return None
            out.append({"op": "new", "in": [], "out": [nn], "a": {"spec": v}, "variant": kind})
        elif mode < 0.75 and any(s["op"] == "fuse" for s in lin):
            # same array, same lineage, but the axes inside each fused group
            # are listed in another order: same shapes, different sub-index
            # structure
            kind = "regroup"
            regroup = True
            out.append({"op": "copy", "in": [r], "out": [nn], "a": {}, "variant": "regroup"})
        else:
            # derived after the base has been used: shares index objects
            kind = rng.choice(["conj", "sync_charges", "copy", "dagger-dagger"])
            if r not in st.heap:
                return None
            if kind == "dagger-dagger":
                t = ctx.fresh()
                out.append({"op": "dagger", "in": [r], "out": [t], "a": {}})
                out.append({"op": "dagger", "in": [t], "out": [nn], "a": {}})
            else:
                out.append({"op": kind, "in": [r], "out": [nn], "a": {}, "variant": "derived:" + kind})
        ren = {r: nn}
        k = rng.randint(1, len(lin))
        for stp in lin[:k]:
            if any(n not in ren for n in stp["in"]):
                continue
            new = copy.deepcopy(stp)
            new["in"] = [ren[n] for n in stp["in"]]
            new["out"] = [ctx.fresh() for _ in stp["out"]]
            new["echo"] = kind
            if regroup and new["op"] == "fuse":
                gs = [list(g) for g in new["a"]["groups"]]
                for g in gs:
                    if len(g) > 1:
                        g.reverse()
                new["a"]["groups"] = gs
                regroup = False
            for o, n2 in zip(stp["out"], new["out"]):
                ren[o] = n2
            out.append(new)
        return out

    def gen_macro(self, st, rng):
        cfg = st.config
        ctx = self._ctx(st, rng)
        steps = []
        for k in range(len(cfg["configs"])):
            if rng.random() < cfg["p_event"]:
                steps.append({"op": "@cache", "cfg": k, "a": inject.gen_cache_event(rng)})
        new = None
        if rng.random() < cfg["p_echo"]:
            new = self._echo(st, rng)
        if not new:
            new = ops.gen_steps(ctx, st.heap)
            if rng.random() < 0.25 and new and new[-1]["op"] not in ("new", "del", "newvec"):
                # the same call again: turns misses into hits in warm configs
                rep = copy.deepcopy(new[-1])
                rep["out"] = [ctx.fresh() for _ in rep["out"]]
                rep["repeat"] = True
                new.append(rep)
        return steps + new

    def _track(self, st, step):
        """Book-keeping of roots and lineages for the echo generator."""
        op = step["op"]
        if op == "new":
            n = step["out"][0]
            st.roots[n] = step["a"]["spec"]
            st.rootof[n] = n
            st.lineage.setdefault(n, [])
            return
        ins = step.get("in", [])
        if op in UNARY_ECHO and len(ins) == 1 and ins[0] in st.rootof:
            r = st.rootof[ins[0]]
            if len(st.lineage[r]) < 6 and "echo" not in step:
                st.lineage[r].append(step)
                for o in step["out"]:
                    st.rootof[o] = r
        if op in ("tensordot", "align_axes") and len(ins) == 2 and all(
                n in st.roots for n in ins) and "echo" not in step:
            st.binaries.append(step)

    # ------------------------------------------------------------- execute
    @staticmethod
    def _run_one(heap, step):
        op = step["op"]
        if any(n not in heap for n in step.get("in", [])):
            return ("skip",)
        if op == "del":
            ops.bind(step, heap, None)
            return ("del",)
        try:
            res = ops.run_step(step, heap)
        except HarnessError:
            raise
        except Exception as e:  # noqa: BLE001
            return ("raised", type(e).__name__, str(e)[:80])
        ops.bind(step, heap, res)
        return ("ok", S.snap(res))

    def exec_step(self, st, step):
        st.seen.append(step)
        if "cfg" in step:
            st.ref.append(None)
            return
        # cold reference: every cache, memo and module-level container of the
        # library is put back to its import-time content before each step
        core.world_reset(0, 512)
        out = self._run_one(st.heap, step)
        st.ref.append(out)
        if out[0] == "ok":
            st.stats["step.ok"] += 1
            st.stats["op." + step["op"]] += 1
            if "variant" in step:
                st.stats["reach.variant." + step["variant"]] += 1
            if "echo" in step:
                st.stats["reach.echo"] += 1
            self._track(st, step)
        elif out[0] == "raised":
            st.stats["step.raised"] += 1
        st.log.add(out[0], [step["op"], out[1] if out[0] == "raised" else None])

    def finish(self, st):
        cfgs = st.config["configs"]
        for k, cfg in enumerate(cfgs):
            core.world_reset(cfg["maxsize"], cfg["maxsectors"])
            heap = {}
            for i, step in enumerate(st.seen):
                if "cfg" in step:
                    if step["cfg"] == k:
                        tag = inject.apply_cache_event(step["a"], heap)
                        if tag:
                            st.stats["fault.cache." + tag] += 1
                    continue
                ref = st.ref[i]
                size_before = len(AC._fuseinfos)
                missed_before = AC._fi_missed
                out = self._run_one(heap, step)
                if AC._fi_missed > missed_before and len(AC._fuseinfos) - size_before < AC._fi_missed - missed_before:
                    st.stats["fault.cache.lru_eviction"] += 1
                st.states.add(core.digest([list(AC._fuseinfos.keys()),
                                           AC._fuseinfo_cache_maxsize])[:12])
                self._compare(st, k, i, step, ref, out)
            st.stats["cache.hit"] += AC._fi_hit
            st.stats["cache.miss"] += AC._fi_missed
            st.stats["cache.too_many_sectors"] += AC._fi_missed_too_long
            st.log.add("config-done", [k, AC._fi_hit, AC._fi_missed])
        if st.stats["cache.hit"]:
            st.stats["fault.cache.warm_hit"] += st.stats["cache.hit"]

    def _compare(self, st, k, i, step, ref, out):
        op = step["op"]
        if ref[0] != out[0]:
            self.report(st, "history-independent", op,
                        f"config {k} step {i}: reference {ref[:2]} but got {out[:2]}",
                        ["raise-mismatch"])
            return
        if ref[0] == "raised":
            if ref[1] != out[1]:
                self.report(st, "history-independent", op,
                            f"config {k} step {i}: reference raised {ref[1]} but got {out[1]}",
                            ["raise-mismatch"])
            return
        if ref[0] != "ok":
            return
        st.stats["oracle.compared"] += 1
        why = S.snap_close(ref[1], out[1])
        if why:
            self.report(st, "history-independent", op,
                        f"config {k} (maxsize={st.config['configs'][k]['maxsize']}) step {i}: "
                        f"differs from cold reference: {why}", ["value"])

    def gate(self, stats, agg, tier):
        probs = []
        if agg["per_engine"].get(self.name, 0) >= 50:
            for k in ("cache.hit", "cache.miss", "fault.cache.lru_eviction"):
                if not stats.get(k):
                    probs.append(f"c15a: reach probe {k} is zero")
        return probs
