"""Runner: fans seeds out over processes, minimises and replays violations,
handles known findings, writes evidence, sets exit codes.

exit 0: every explored run held (known findings are printed, not counted)
exit 1: VIOLATION line(s) for reproduced, minimised violations
exit 2: harness error (never silently 0)
"""

import collections
import concurrent.futures as cf
import faulthandler
import json
import multiprocessing
import os
import subprocess
import sys
import time
import traceback

from . import core
from .core import HarnessError
from .minimize import minimize

ENGINES = {}


def register(prop, loader, budgets):
    ENGINES[prop] = (loader, budgets)


def get_engines(prop):
    loader, budgets = ENGINES[prop]
    return loader(), budgets


def _load_c14():
    from .props.c14 import C14
    return [C14()]


register("C14", _load_c14, {"quick": {"runs": 24000, "wall": 90},
                            "thorough": {"runs": 600000, "wall": 1200}})


def _load_c01():
    from .props.c01 import C01
    return [C01()]


register("C01", _load_c01, {"quick": {"runs": 16000, "wall": 120},
                            "thorough": {"runs": 500000, "wall": 1800}})


def _load_c04():
    from .props.c04 import C04
    return [C04()]


register("C04", _load_c04, {"quick": {"runs": 24000, "wall": 120},
                            "thorough": {"runs": 900000, "wall": 1800}})


def _load_c09():
    from .props.c09 import C09
    return [C09()]


register("C09", _load_c09, {"quick": {"runs": 8000, "wall": 120},
                            "thorough": {"runs": 300000, "wall": 1800}})


def _load_c15():
    from .props.c15 import C15A, C15B, C15C
    return [C15A(), C15B(), C15C()]


register("C15", _load_c15, {"quick": {"runs": 16000, "wall": 150},
                            "thorough": {"runs": 400000, "wall": 1800}})


# ------------------------------------------------------------------ worker

def _work(args):
    prop, eng_idx, seed, runs, tier, deadline = args
    faulthandler.dump_traceback_later(600, exit=True)
    try:
        import resource
        resource.setrlimit(resource.RLIMIT_AS, (6 << 30, 6 << 30))
    except Exception:  # noqa: BLE001
        pass
    engines, _ = get_engines(prop)
    eng = engines[eng_idx]
    res = {
        "runs": 0, "stats": collections.Counter(), "digests": [],
        "violations": [], "findings": [], "samples": [], "errors": [],
        "steps": 0, "nontrivial": 0, "states": set(),
    }
    for run in runs:
        if time.time() > deadline:
            break
        # watchdog per run (re-armed): a hang is a harness error, a slow
        # machine is not
        faulthandler.dump_traceback_later(900, exit=True)
        t_run = time.time()
        try:
            program, out = eng.generate(seed, run, tier)
        except HarnessError as e:
            res["errors"].append(f"run {run}: HarnessError {e}\n{traceback.format_exc()}")
            continue
        except Exception as e:  # noqa: BLE001
            res["errors"].append(f"run {run}: {type(e).__name__} {e}\n{traceback.format_exc()}")
            continue
        res["runs"] += 1
        dt_run = time.time() - t_run
        if dt_run > res.get("slowest", (0,))[0]:
            res["slowest"] = (round(dt_run, 2), eng.name, run)
        res["stats"].update(out["stats"])
        res["steps"] += len(program["steps"])
        nontriv = out["progressed"] >= 3 and out["faults"] >= 1
        if nontriv:
            res["nontrivial"] += 1
            res["digests"].append(out["digest"])
        for s in out.get("states", ()):
            res["states"].add(s)
        for f in out["findings"]:
            res["findings"].append(f)
        if len(res["samples"]) < 2 and nontriv:
            res["samples"].append(sample_of(program))
        if out.violation:
            try:
                mini = minimize(eng, program, out.violation,
                                extra_passes=getattr(eng, "extra_minimise", None))
            except Exception as e:  # noqa: BLE001
                mini = None
                res["errors"].append(f"minimise run {run}: {e}\n{traceback.format_exc()}")
            res["violations"].append({
                "run": run, "violation": out.violation,
                "program": mini or program, "minimised": mini is not None,
            })
            if len(res["violations"]) >= 3:
                break
    faulthandler.cancel_dump_traceback_later()
    res["states"] = sorted(res["states"])[:20000]
    return res


def sample_of(program, nmax=14):
    steps = []
    for s in program["steps"][:nmax]:
        a = {k: v for k, v in s.get("a", {}).items() if k != "spec"}
        if "spec" in s.get("a", {}):
            sp = s["a"]["spec"]
            a["spec"] = {k: sp[k] for k in ("kind", "sym", "charge", "dtype") if k in sp}
            a["spec"]["nsectors"] = len(sp.get("sectors", sp.get("cm", [])))
        d = {"op": s["op"], "in": s.get("in", []), "out": s.get("out", []), "a": a}
        for k in ("crash_n", "thread", "route", "ta", "tb", "bonds", "perm", "t", "legs", "mode", "net"):
            if k in s:
                d[k] = s[k]
        steps.append(d)
    cfg = {k: v for k, v in program["config"].items() if k not in ("specs",)}
    return {"engine": program["engine"], "config": cfg, "steps": steps,
            "total_steps": len(program["steps"])}


# ---------------------------------------------------------------- replay

def replay_fresh(path):
    """Replay a file in a fresh interpreter under a different hash seed."""
    env = dict(os.environ, PYTHONHASHSEED="0")
    p = subprocess.run(
        [sys.executable, os.path.join(core.VERIF, "symsim", "replay.py"), path],
        capture_output=True, text=True, env=env, timeout=600,
    )
    return p.returncode, p.stdout + p.stderr


# ------------------------------------------------------------------- main

def run_check(prop, tier, seed, workers=None, runs=None, wall=None):
    t0 = time.time()
    engines, budgets = get_engines(prop)
    b = dict(budgets[tier])
    if runs is not None:
        b["runs"] = runs
    if wall is not None:
        b["wall"] = wall
    workers = workers or min(16, os.cpu_count() or 1)
    deadline = t0 + b["wall"]
    tasks = []
    share = getattr(engines[0], "shares", None)
    for ei, eng in enumerate(engines):
        n = int(b["runs"] * (eng.share if hasattr(eng, "share") else 1.0 / len(engines)))
        n = max(n, 1)
        chunk = max(1, min(getattr(eng, "chunk", 40), n // (workers * 2) or 1))
        for lo in range(0, n, chunk):
            tasks.append((prop, ei, seed, list(range(lo, min(n, lo + chunk))), tier, deadline))
    # interleave engines so a deadline cuts them all evenly
    tasks.sort(key=lambda t: (t[3][0], t[1]))

    agg = {
        "runs": 0, "stats": collections.Counter(), "digests": set(),
        "violations": [], "findings": [], "samples": [], "errors": [],
        "steps": 0, "nontrivial": 0, "states": set(),
        "per_engine": collections.Counter(),
    }
    ctx = multiprocessing.get_context("fork")
    broken = None
    with cf.ProcessPoolExecutor(max_workers=workers, mp_context=ctx) as pool:
        futs = {pool.submit(_work, t): t for t in tasks}
        try:
            for fut in cf.as_completed(futs, timeout=b["wall"] * 3 + 300):
                try:
                    r = fut.result()
                except Exception as e:  # noqa: BLE001
                    broken = f"worker failed: {type(e).__name__} {e}"
                    break
                t = futs[fut]
                agg["runs"] += r["runs"]
                agg["per_engine"][engines[t[1]].name] += r["runs"]
                agg["stats"].update(r["stats"])
                agg["digests"].update(r["digests"])
                agg["violations"].extend(
                    dict(v, engine=t[1]) for v in r["violations"])
                agg["findings"].extend(r["findings"])
                agg["errors"].extend(r["errors"])
                agg["steps"] += r["steps"]
                agg["nontrivial"] += r["nontrivial"]
                if r.get("slowest", (0,))[0] > agg.get("slowest", (0,))[0]:
                    agg["slowest"] = r["slowest"]
                agg["states"].update(r["states"])
                if len(agg["samples"]) < 4:
                    agg["samples"].extend(r["samples"][:1])
        except cf.TimeoutError:
            broken = "wall timeout waiting for workers"
        if broken:
            for f in futs:
                f.cancel()
            pool.shutdown(wait=False, cancel_futures=True)

    # regressions: minimised replays of defects that were fixed (or of seeded
    # changes); a fixed defect that returns is reported again
    import glob
    for path in sorted(glob.glob(os.path.join(core.VERIF, "regressions", f"{prop}-*.json"))):
        try:
            data = json.load(open(path))
            eng = [e for e in engines if e.name == data["program"]["engine"]][0]
            out = eng.execute(data["program"])
        except Exception as e:  # noqa: BLE001
            agg["errors"].append(f"regression {path}: {type(e).__name__} {e}")
            continue
        agg["stats"]["oracle.regressions_replayed"] += 1
        agg["findings"].extend(out["findings"])
        if out.violation:
            agg["violations"].append({"run": -1, "violation": out.violation,
                                      "program": data["program"], "minimised": True,
                                      "regression": path})

    wall_s = time.time() - t0
    rc = 0
    lines = []

    # known findings: one line per distinct entry
    seen = set()
    for f in agg["findings"]:
        key = (f["oracle"], f["op"], f["when"])
        if key in seen:
            continue
        seen.add(key)
        lines.append(f"KNOWN-FINDING: property={prop} oracle={f['oracle']} "
                     f"op={f['op']} when={f['when']} {f['what']}")

    # violations: write, replay in a fresh interpreter, report
    reported = set()
    nviol = 0
    os.makedirs(os.path.join(core.VERIF, "replays"), exist_ok=True)
    for v in agg["violations"]:
        sig = (v["violation"]["oracle"], v["violation"]["where"])
        if sig in reported:
            continue
        reported.add(sig)
        path = os.path.join(core.VERIF, "replays",
                            f"{prop}-{seed}-{v['program']['engine']}-{v['run']}.json")
        if v.get("regression"):
            path = v["regression"]
        else:
            with open(path, "w") as fh:
                json.dump({"property": prop, "seed": seed, "run": v["run"],
                           "violation": v["violation"], "minimised": v["minimised"],
                           "program": v["program"]}, fh, indent=1)
        code, outp = replay_fresh(path)
        if code == 1 and f"signature={sig[0]}:{sig[1]}" in outp:
            nviol += 1
            rc = 1
            lines.append(f"VIOLATION property={prop} replay={path}")
            lines.append(f"  oracle={sig[0]} where={sig[1]} detail={v['violation']['detail'][:300]}")
            lines.append(f"  steps={len(v['program']['steps'])} "
                         f"(minimised from {v['program'].get('minimised_from', '?')})")
        else:
            agg["errors"].append(
                f"violation {sig} of run {v['run']} did not reproduce in a fresh "
                f"interpreter (exit {code}); replay file {path}\n{outp[-2000:]}")

    gate = []
    for eng in engines:
        gate.extend(eng.gate(agg["stats"], agg, tier) if hasattr(eng, "gate") else [])
    if agg["runs"] < 10:
        gate.append(f"only {agg['runs']} runs completed")
    if broken:
        gate.append(broken)
    if agg["errors"] or gate:
        if rc == 0:
            rc = 2
        for e in agg["errors"][:5]:
            lines.append("HARNESS-ERROR: " + e.strip().replace("\n", "\n    "))
        for g in gate:
            lines.append("HARNESS-ERROR: gate: " + g)

    write_evidence(prop, tier, seed, engines, agg, wall_s, nviol, rc)
    for ln in lines:
        print(ln)
    if agg.get("slowest"):
        print(f"  slowest run: {agg['slowest']}")
    print(f"[{prop} {tier}] seed={seed} runs={agg['runs']} nontrivial={agg['nontrivial']} "
          f"distinct={len(agg['digests'])} steps={agg['steps']} "
          f"violations={nviol} known={len(seen)} wall={wall_s:.1f}s exit={rc}")
    return rc


def write_evidence(prop, tier, seed, engines, agg, wall_s, nviol, rc):
    if os.path.realpath(core.REPO) != "/repo":
        # a self-test against a scratch copy (SYMSIM_REPO): evidence files only
        # ever describe runs against /repo itself
        return
    st = agg["stats"]
    faults = {k: v for k, v in sorted(st.items()) if k.startswith("fault.")}
    reach = {k: v for k, v in sorted(st.items()) if k.startswith("reach.")}
    opsn = {k: v for k, v in sorted(st.items()) if k.startswith("op.")}
    crashsites = {k: v for k, v in st.items() if k.startswith("crashsite.")}
    known = {k: v for k, v in sorted(st.items()) if k.startswith("known.")}
    other = {k: v for k, v in sorted(st.items())
             if k.split(".")[0] in ("step", "oracle", "sched", "cache", "route")}
    cov = {
        "evaluations": int(agg["runs"]),
        "distinct_nontrivial": int(len(agg["digests"])),
        "rule": engines[0].rule if hasattr(engines[0], "rule") else (
            "one evaluation = one seeded simulated run (generated program + injected events); "
            "non-trivial = at least one injected fault actually fired AND at least three "
            "steps progressed; distinct = distinct SHA-1 of the run's event log"),
        "samples": agg["samples"][:4],
        "runs_per_engine": dict(agg["per_engine"]),
        "simulated_steps": int(agg["steps"]),
        "simulated_time": "none: the code under test has no clock or timer; extent is counted in steps",
        "runs_per_hour": int(agg["runs"] / max(wall_s, 1e-9) * 3600),
        "seeds": f"VERIF_SEED={seed}, run indices 0..{agg['runs']} per engine "
                 "(every choice derived from (seed, run, stream))",
        "faults_fired": faults,
        "reach_probes": reach,
        "operations_progressed": opsn,
        "crash_sites_distinct": len(crashsites),
        "crash_sites_top": dict(collections.Counter(crashsites).most_common(12)),
        "distinct_states": {"measure": getattr(engines[0], "state_measure", "distinct run digests"),
                            "count": len(agg["states"]) or len(agg["digests"])},
        "other_counters": other,
        "known_findings_hit": known,
        "components": {
            "real": ["symmray (all modules, imported from /repo working tree)", "autoray", "numpy"],
            "stub": ["scipy.linalg.expm dense kernel (scipy is absent from /venv): core.expm_stub, "
                     "a pure-numpy scaling-and-squaring Taylor series registered with autoray; "
                     "symmray's block-wise expm wrapper around it is real code"],
            "absent_not_exercised": ["scipy (SVD fallback)", "quimb (network builders, TFIM/Heisenberg)",
                                     "torch/jax backends"],
        },
        "exit_code": rc,
    }
    ev = {
        "property_id": prop,
        "tier": tier,
        "seed": int(seed),
        "level": "exploration",
        "coverage": cov,
        "assumptions": [
            "seeded sampling, not enumeration: a clean batch is evidence with the stated coverage, not proof",
            "numpy backend only; CPython 3.12 with GIL",
            "independent observers (symsim/groups.py, snap.py, audit.py) are trusted; the library's own check/allclose/to_dense are not used as oracles",
        ],
        "wall_s": round(wall_s, 2),
        "violations": int(nviol),
    }
    os.makedirs(os.path.join(core.VERIF, "evidence"), exist_ok=True)
    with open(os.path.join(core.VERIF, "evidence", f"{prop}.json"), "w") as fh:
        json.dump(core.jsonable(ev), fh, indent=1, default=repr)


def main(argv):
    import argparse

    ap = argparse.ArgumentParser()
    ap.add_argument("prop")
    ap.add_argument("tier", nargs="?", default=os.environ.get("VERIF_TIER", "quick"))
    ap.add_argument("--runs", type=int)
    ap.add_argument("--wall", type=int)
    ap.add_argument("--workers", type=int)
    ap.add_argument("--seed", type=int)
    a = ap.parse_args(argv)
    seed = a.seed if a.seed is not None else int(os.environ.get("VERIF_SEED", "0") or 0)
    tier = a.tier if a.tier in ("quick", "thorough") else "quick"
    try:
        return run_check(a.prop, tier, seed, workers=a.workers, runs=a.runs, wall=a.wall)
    except HarnessError as e:
        print(f"HARNESS-ERROR: {e}")
        return 2
