#!/venv/bin/python
"""False-alarm self-test: behaviour-preserving refactors (benign/*.patch) are
applied to a scratch copy of /repo; the baseline suite must pass on them and
every listed check must exit 0."""
import glob
import os
import shutil
import subprocess
import sys
import tempfile

VERIF = os.path.dirname(os.path.dirname(os.path.abspath(__file__)))


def main(argv):
    runs = "6000"
    pats = [a for a in argv if not a.startswith("--")]
    bad = 0
    for patch in sorted(glob.glob(os.path.join(VERIF, "benign", "*.patch"))):
        name = os.path.basename(patch)[:-6]
        if pats and not any(p in name for p in pats):
            continue
        props = open(patch).readline().split(":")[1].strip().split(",")
        d = tempfile.mkdtemp(prefix="symsim-ben-", dir="/dev/shm")
        try:
            subprocess.run(["rsync", "-a", "--exclude", ".git", "/repo/", d + "/"], check=True)
            p = subprocess.run(["patch", "-p1", "-s", "-d", d, "-i", patch], capture_output=True, text=True)
            if p.returncode:
                print(f"PATCH-FAILED {name}: {p.stdout[-200:]}")
                bad += 1
                continue
            t = subprocess.run(["/venv/bin/python", "-m", "pytest", "-q", "-x", "-p", "no:cacheprovider", "tests"],
                               cwd=d, capture_output=True, text=True,
                               env=dict(os.environ, PYTHONPATH=d, PYTHONDONTWRITEBYTECODE="1"))
            tests = t.stdout.strip().splitlines()[-1] if t.stdout.strip() else "?"
            res = []
            for prop in props:
                c = subprocess.run([os.path.join(VERIF, "check"), prop, "quick", "--runs", runs],
                                   capture_output=True, text=True, cwd=VERIF,
                                   env=dict(os.environ, SYMSIM_REPO=d))
                res.append(f"{prop}:exit{c.returncode}")
                if c.returncode != 0:
                    bad += 1
                    print("   ", [ln for ln in c.stdout.splitlines() if ln.startswith(("VIOL", "  oracle", "HARN"))][:3])
            print(f"{'QUIET' if all(r.endswith('exit0') for r in res) else 'ALARM'} {name:55s} {' '.join(res)}  tests: {tests[:40]}", flush=True)
        finally:
            shutil.rmtree(d, ignore_errors=True)
    return 1 if bad else 0


if __name__ == "__main__":
    sys.exit(main(sys.argv[1:]))
