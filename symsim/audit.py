"""C01 auditor: independent structural validity check of any returned value.

Returns a list of (rule, detail) problems; empty list means valid. Uses the
independent group arithmetic of ``groups`` applied to labels exactly as
stored. Demands only what the property states.
"""

import numpy as np

from .core import sr, BC
from .groups import group_of, _isint
from .snap import raw_phases, raw_oddpos, kind_of


def _sorted_keys(keys):
    keys = list(keys)
    try:
        return all(a < b for a, b in zip(keys, keys[1:]))
    except TypeError:
        return False


def audit_index(g, ix, path, out, depth=0):
    cm = ix.chargemap
    if not _sorted_keys(cm.keys()):
        out.append(("index-sorted", f"{path}: charge table not strictly increasing {list(cm)}"))
    for c, d in cm.items():
        if not g.member(c):
            out.append(("index-charge", f"{path}: label {c!r} is not a {g.name} charge"))
        if not _isint(d) or d <= 0:
            out.append(("index-size", f"{path}: size {d!r} of charge {c!r}"))
    si = ix.subinfo
    if si is None:
        return
    ext = si.extents
    subs = si.indices
    if set(ext) != set(cm):
        out.append((
            "subinfo-charges",
            f"{path}: extents for {sorted(ext, key=repr)} but table has {sorted(cm, key=repr)}",
        ))
    for c, e in ext.items():
        if c in cm and sum(e.values()) != cm[c]:
            out.append((
                "subinfo-partition",
                f"{path}: extents of {c!r} sum to {sum(e.values())} but size is {cm[c]}",
            ))
        for ss, d in e.items():
            if len(ss) != len(subs):
                out.append(("subinfo-arity", f"{path}: sub-sector {ss!r} vs {len(subs)} sub-indices"))
                continue
            prod = 1
            okc = True
            for sc, six in zip(ss, subs):
                if sc not in six.chargemap:
                    out.append(("subinfo-subcharge", f"{path}: sub-charge {sc!r} not in sub-index table"))
                    okc = False
                else:
                    prod *= six.chargemap[sc]
            if okc and prod != d:
                out.append(("subinfo-size", f"{path}: sub-sector {ss!r} size {d} != product {prod}"))
            if okc:
                # signed combination of sub-charges, relative to the fused
                # index's own direction, must equal the fused charge
                tot = g.add(*(
                    g.signed(sc, six.dual != ix.dual) for sc, six in zip(ss, subs)
                ))
                if tot != c:
                    out.append((
                        "subinfo-charge",
                        f"{path}: sub-sector {ss!r} combines to {tot!r}, filed under {c!r}",
                    ))
    if depth < 6:
        for i, six in enumerate(subs):
            audit_index(g, six, f"{path}.sub{i}", out, depth + 1)


def audit(v):
    out = []
    k = kind_of(v)
    if k == "T":
        for i, x in enumerate(v):
            out.extend((r, f"[{i}] {d}") for r, d in audit(x))
        return out
    if k == "V":
        for s, b in v.blocks.items():
            if np.ndim(b) != 1:
                out.append(("vector-ndim", f"block {s!r} has ndim {np.ndim(b)}"))
        return out
    if k not in "AF":
        return out
    try:
        g = group_of(v)
    except KeyError:
        return [("symmetry", f"unknown symmetry {v.symmetry!r}")]
    if not g.member(v.charge):
        out.append(("total-charge", f"total charge {v.charge!r} is not a {g.name} charge"))
    idx = v.indices
    if not isinstance(idx, tuple):
        out.append(("indices-type", f"{type(idx).__name__}"))
    for i, ix in enumerate(idx):
        audit_index(g, ix, f"ix{i}", out)

    def sector_ok(s, what):
        if not isinstance(s, tuple) or len(s) != len(idx):
            out.append((f"{what}-arity", f"sector {s!r} for {len(idx)} indices"))
            return False
        good = True
        for c, ix in zip(s, idx):
            # the statement asks this of stored blocks only (their shape must
            # be what the tables assign); a pending sign may name a sector
            # whose charge was since dropped from a table (aligned operands)
            if what == "block" and c not in ix.chargemap:
                out.append((f"{what}-charge", f"sector {s!r}: {c!r} not in index table {list(ix.chargemap)}"))
                good = False
        try:
            tot = g.add(*(g.signed(c, ix.dual) for c, ix in zip(s, idx)))
        except Exception as e:  # malformed labels
            out.append((f"{what}-conservation", f"sector {s!r}: {e!r}"))
            return False
        if tot != v.charge:
            out.append((
                f"{what}-conservation",
                f"sector {s!r} combines to {tot!r}, total charge {v.charge!r}",
            ))
            good = False
        return good

    for s, b in v.blocks.items():
        if sector_ok(s, "block"):
            shape = tuple(ix.chargemap[c] for c, ix in zip(s, idx))
            if tuple(np.shape(b)) != shape:
                out.append(("block-shape", f"sector {s!r}: {np.shape(b)} vs {shape}"))
    if k == "F":
        for s, p in raw_phases(v).items():
            if not (p == 1 or p == -1) or isinstance(p, bool):
                out.append(("phase-value", f"sector {s!r}: {p!r}"))
            sector_ok(s, "phase")
        odd = raw_oddpos(v)
        if g.member(v.charge) and len(odd) % 2 != g.parity(v.charge):
            out.append((
                "oddpos-parity",
                f"{len(odd)} labels on a parity-{g.parity(v.charge)} array",
            ))
    return out
