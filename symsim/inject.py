"""Fault injection seams: crash at the n-th line of library code, cache
perturbation, sign flushes. All are driven by recorded, concrete step
arguments, never by a PRNG at execution time."""

import sys

from . import core
from .core import (
    AC, SimCrash, SYMMRAY_DIR, LRU_CACHES, clear_lru, set_cache_limits, sr,
    HarnessError,
)


class LineTracer:
    """Counts 'line' events in frames of files under /repo/symmray and raises
    SimCrash at the n-th (n=None: only count). ``exclude`` is a set of
    function names whose own frames are not crash sites; ``only_below`` makes
    only frames strictly below a frame of the given code object count."""

    def __init__(self, crash_at=None, exclude=()):
        self.crash_at = crash_at
        self.count = 0
        self.fired = None
        self.exclude = set(exclude)
        self._prev = None

    def _global(self, frame, event, arg):
        code = frame.f_code
        if code.co_filename.startswith(SYMMRAY_DIR):
            # (also methods of an excluded class: a class-based context manager's
            # __enter__/__exit__ are the manager's own frames)
            if code.co_name in self.exclude or code.co_qualname.split(".")[0] in self.exclude:
                return None
            return self._local
        return None

    def _local(self, frame, event, arg):
        if event == "line":
            self.count += 1
            if self.crash_at is not None and self.count == self.crash_at:
                code = frame.f_code
                self.fired = (
                    code.co_filename[len(SYMMRAY_DIR):],
                    code.co_name,
                    frame.f_lineno,
                )
                raise SimCrash(f"{self.fired}")
        return self._local

    def __enter__(self):
        self._prev = sys.gettrace()
        sys.settrace(self._global)
        return self

    def __exit__(self, *exc):
        sys.settrace(self._prev)
        return False


def run_counted(fn):
    """Run fn() under a counting tracer; returns (count, result or exc)."""
    t = LineTracer()
    try:
        with t:
            res = fn()
        return t.count, res, None
    except Exception as e:  # noqa: BLE001
        return t.count, None, e


def run_crashing(fn, n, exclude=()):
    """Run fn() with a crash armed at line n.
    Returns (fired_site or None, result, exception)."""
    t = LineTracer(crash_at=n, exclude=exclude)
    try:
        with t:
            res = fn()
        return t.fired, res, None
    except SimCrash as e:
        return t.fired, None, e
    except Exception as e:  # noqa: BLE001
        return t.fired, None, e


# ------------------------------------------------------------ cache events


def cache_signature():
    return (len(core.CACHE._fuseinfos), core.CACHE._fuseinfo_cache_maxsize,
            core.CACHE._fuseinfo_cache_maxsectors)


def apply_cache_event(a, heap=None):
    """F1: perturb process-wide caches. Returns a short tag of what fired."""
    act = a["action"]
    fi = core.CACHE._fuseinfos
    if act == "evict_oldest":
        if fi:
            fi.popitem(last=False)
            return "evict_oldest"
        return None
    if act == "evict_index":
        if fi:
            k = list(fi.keys())[a["i"] % len(fi)]
            del fi[k]
            return "evict_index"
        return None
    if act == "clear":
        n = len(fi)
        fi.clear()
        return "clear" if n else None
    if act == "clear_lru":
        names = a.get("names")
        clear_lru(names)
        return "clear_lru"
    if act == "limits":
        set_cache_limits(a["maxsize"], a["maxsectors"])
        # an LRU that is now over-full trims on the next miss only
        return "limits"
    if act == "warm_hashkeys":
        n = 0
        for v in (heap or {}).values():
            if isinstance(v, sr.AbelianArray):
                for ix in v.indices:
                    ix.hashkey()
                    n += 1
                    if ix.subinfo is not None:
                        ix.subinfo.hashkey()
        return "warm_hashkeys" if n else None
    raise HarnessError(f"unknown cache action {act}")


def gen_cache_event(rng):
    r = rng.random()
    if r < 0.25:
        return {"action": "evict_oldest"}
    if r < 0.45:
        return {"action": "evict_index", "i": rng.randrange(64)}
    if r < 0.55:
        return {"action": "clear"}
    if r < 0.7:
        names = sorted(LRU_CACHES)
        return {"action": "clear_lru",
                "names": rng.sample(names, rng.randint(1, len(names)))}
    if r < 0.85:
        return {"action": "warm_hashkeys"}
    return {"action": "limits", "maxsize": rng.choice(CACHE_SIZES),
            "maxsectors": rng.choice(CACHE_SECTORS)}


CACHE_SIZES = [0, 1, 2, 3, 8192]
CACHE_SECTORS = [0, 1, 4, 512]


def flush(values):
    """F2: flush pending signs of the given fermionic values, in place."""
    n = 0
    for v in values:
        if isinstance(v, sr.FermionicArray):
            v.phase_sync(inplace=True)
            n += 1
    return n
