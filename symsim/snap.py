"""Independent observers: deep snapshots, comparators, deep clones.

Never the library's own ``check``, ``allclose`` or ``to_dense``.
"""

import numpy as np

from .core import sr, BC, HarnessError
from .groups import norm_charge, group_of


def kind_of(v):
    if isinstance(v, sr.FermionicArray):
        return "F"
    if isinstance(v, sr.AbelianArray):
        return "A"
    if isinstance(v, BC.BlockVector):
        return "V"
    if isinstance(v, tuple):
        return "T"
    if v is None:
        return "N"
    return "S"


# --------------------------------------------------------------- snapshot


def snap_index(ix):
    si = ix.subinfo
    return (
        tuple((norm_charge(c), int(d)) for c, d in ix.chargemap.items()),
        bool(ix.dual),
        None
        if si is None
        else (
            tuple(snap_index(s) for s in si.indices),
            tuple(
                (
                    norm_charge(c),
                    tuple((norm_charge(ss), int(d)) for ss, d in ext.items()),
                )
                for c, ext in si.extents.items()
            ),
        ),
    )


def snap_block(a):
    w = bool(a.flags.writeable) if isinstance(a, np.ndarray) else True
    a = np.asarray(a)
    # dtype, shape, contents, and whether the caller may still write into the
    # block (a call that flips an operand's block to read-only has changed
    # what later legal operations on that operand do)
    return (str(a.dtype) + ("" if w else ":readonly"), tuple(a.shape), a.tobytes())


def raw_phases(x):
    # attribute may legitimately be absent (created lazily on first read);
    # reading through getattr on the slot avoids creating it
    try:
        return x._phases
    except AttributeError:
        return {}


def raw_oddpos(x):
    try:
        return x._oddpos
    except AttributeError:
        return ()


def snap(v):
    k = kind_of(v)
    if k in "AF":
        out = [
            k,
            type(v).__name__,
            type(v.symmetry).__name__,
            norm_charge(v.charge),
            tuple(snap_index(ix) for ix in v.indices),
            tuple((norm_charge(s), snap_block(b)) for s, b in v.blocks.items()),
        ]
        if k == "F":
            out.append(
                tuple(
                    sorted(
                        ((norm_charge(s), int(p)) for s, p in raw_phases(v).items()),
                        key=repr,
                    )
                )
            )
            out.append(
                tuple(label_of(o) for o in raw_oddpos(v))
            )
        return tuple(out)
    if k == "V":
        return (
            "V",
            tuple((norm_charge(s), snap_block(b)) for s, b in v.blocks.items()),
        )
    if k == "T":
        return ("T",) + tuple(snap(x) for x in v)
    if k == "N":
        return ("N",)
    a = np.asarray(v)
    return ("S", str(a.dtype), a.tobytes())


def norm_label(lb):
    return norm_charge(lb)


def describe_diff(s1, s2, path=""):
    """Short human-readable location of the first difference."""
    if type(s1) != type(s2):
        return f"{path}: type {type(s1).__name__} vs {type(s2).__name__}"
    if isinstance(s1, tuple):
        if len(s1) != len(s2):
            return f"{path}: len {len(s1)} vs {len(s2)}"
        for i, (a, b) in enumerate(zip(s1, s2)):
            if a != b:
                return describe_diff(a, b, f"{path}/{i}")
        return None
    if s1 != s2:
        a = repr(s1)[:60]
        b = repr(s2)[:60]
        return f"{path}: {a} vs {b}"
    return None


FIELD = {0: "kind", 1: "class", 2: "symmetry", 3: "charge", 4: "indices",
         5: "blocks", 6: "phases", 7: "oddpos"}


def diff_field(s1, s2):
    """Which top-level field of two array snapshots differs first."""
    if s1 == s2:
        return None
    if not (isinstance(s1, tuple) and isinstance(s2, tuple)):
        return "value"
    if s1[:1] != s2[:1] or len(s1) != len(s2):
        return "kind"
    if s1[0] in ("A", "F"):
        for i in range(len(s1)):
            if s1[i] != s2[i]:
                return FIELD.get(i, str(i))
    return "value"


# ----------------------------------------------------------- comparators


def eff_blocks(x):
    """Blocks with pending signs multiplied in by the observer."""
    ph = raw_phases(x) if isinstance(x, sr.FermionicArray) else {}
    out = {}
    for s, b in x.blocks.items():
        b = np.asarray(b)
        if ph.get(s, 1) == -1:
            # a boolean block cannot be negated by numpy: its signed value
            # is still well defined for the observer
            b = -(b.astype("int8")) if b.dtype.kind == "b" else -b
        out[norm_charge(s)] = b
    return out


def structure(v):
    """Everything about an array except block values / signs / block order."""
    k = kind_of(v)
    if k in "AF":
        st = [
            k,
            type(v).__name__,
            type(v.symmetry).__name__,
            norm_charge(v.charge),
            tuple(snap_index(ix) for ix in v.indices),
        ]
        if k == "F":
            st.append(
                tuple(label_of(o) for o in raw_oddpos(v))
            )
        return tuple(st)
    return (k,)


def _close(a, b, rtol, atol):
    a = np.asarray(a)
    b = np.asarray(b)
    if a.shape != b.shape:
        return False
    if a.dtype.kind == "b" or b.dtype.kind == "b":
        return bool(np.array_equal(a, b))
    scale = max(
        float(np.max(np.abs(a))) if a.size else 0.0,
        float(np.max(np.abs(b))) if b.size else 0.0,
        0.0,
    )
    with np.errstate(all="ignore"):
        d = np.abs(a - b)
    if not np.all(np.isfinite(d)):
        # nan/inf: equal only if same pattern
        return bool(np.array_equal(a, b, equal_nan=True))
    return bool(np.all(d <= atol + rtol * scale))


def same_tensor(v1, v2, rtol=1e-9, atol=1e-11, zero_equiv=False,
                check_dtype=True):
    """None if equal as tensors, else a short reason string.

    Structure must be exactly equal; values are compared after multiplying
    pending signs in. The set of stored sectors must be equal unless
    ``zero_equiv`` (then an absent block is the same as a zero block).
    """
    k1, k2 = kind_of(v1), kind_of(v2)
    if k1 != k2:
        return f"kind {k1} vs {k2}"
    if k1 == "T":
        if len(v1) != len(v2):
            return "tuple length"
        for i, (a, b) in enumerate(zip(v1, v2)):
            r = same_tensor(a, b, rtol, atol, zero_equiv, check_dtype)
            if r:
                return f"[{i}] {r}"
        return None
    if k1 == "N":
        return None
    if k1 == "S":
        a, b = np.asarray(v1), np.asarray(v2)
        if a.shape != b.shape:
            return f"scalar shape {a.shape} vs {b.shape}"
        return None if _close(a, b, rtol, atol) else f"scalar {v1!r} vs {v2!r}"
    if k1 == "V":
        b1 = {norm_charge(s): np.asarray(b) for s, b in v1.blocks.items()}
        b2 = {norm_charge(s): np.asarray(b) for s, b in v2.blocks.items()}
    else:
        s1, s2 = structure(v1), structure(v2)
        if s1 != s2:
            names = ["kind", "class", "symmetry", "charge", "indices", "oddpos"]
            for n, a, b in zip(names, s1, s2):
                if a != b:
                    return f"structure:{n} {describe_diff(a, b)}"
        b1, b2 = eff_blocks(v1), eff_blocks(v2)
    if not zero_equiv and set(b1) != set(b2):
        return f"sectors {sorted(set(b1) ^ set(b2), key=repr)[:3]} differ"
    for s in set(b1) | set(b2):
        x, y = b1.get(s), b2.get(s)
        if x is None:
            x = np.zeros_like(y)
        if y is None:
            y = np.zeros_like(x)
        if check_dtype and x.dtype != y.dtype:
            return f"dtype at {s}: {x.dtype} vs {y.dtype}"
        if not _close(x, y, rtol, atol):
            return f"values at sector {s}"
    return None


# ------------------------------------------------------------------ clone


def label_of(o):
    """(label, dual) of an odd-position entry; an entry that is not a
    FermionicOperator (a library defect the auditor reports) is kept as it is."""
    if hasattr(o, "label") and hasattr(o, "dual"):
        return (norm_label(o.label), bool(o.dual))
    return ("!not-an-operator", repr(o))


def clone_index(ix):
    si = ix.subinfo
    sub = None
    if si is not None:
        sub = sr.abelian_core.SubIndexInfo(
            indices=tuple(clone_index(s) for s in si.indices),
            extents={c: dict(ext) for c, ext in si.extents.items()},
        )
    return sr.BlockIndex(dict(ix.chargemap), dual=ix.dual, subinfo=sub)


def _copy_block(b):
    """Memory-disjoint copy that keeps the representation: a numpy *scalar*
    (what ufuncs return for 0-d input) stays a scalar, because numpy's scalar
    arithmetic and its 0-d array loops may round differently by one ulp."""
    if isinstance(b, np.generic):
        return b
    return np.array(b, copy=True)


def clone(v):
    """Memory-disjoint deep copy built through public constructors."""
    k = kind_of(v)
    if k in "AF":
        kw = {}
        if not type(v).static_symmetry:
            kw["symmetry"] = type(v.symmetry).__name__
        if k == "F":
            kw["phases"] = dict(raw_phases(v))
            kw["oddpos"] = [
                (sr.FermionicOperator(o.label, o.dual) if hasattr(o, "label") else o)
                for o in raw_oddpos(v)
            ]
        # (the harness's own constructions are not subject to the library's
        # debug self-checks, which e.g. refuse non-finite data)
        AC = sr.abelian_core
        dbg = AC.DEBUG
        AC.DEBUG = False
        try:
            new = type(v)(
                indices=tuple(clone_index(ix) for ix in v.indices),
                charge=v.charge,
                blocks={s: _copy_block(b) for s, b in v.blocks.items()},
                **kw,
            )
        finally:
            AC.DEBUG = dbg
        if snap(new) != snap(v):
            raise HarnessError("clone is not identical to its source: "
                               + str(describe_diff(snap(new), snap(v))))
        return new
    if k == "V":
        return BC.BlockVector({s: _copy_block(b) for s, b in v.blocks.items()})
    if k == "T":
        return tuple(clone(x) for x in v)
    if k == "S":
        if isinstance(v, np.ndarray):
            return v.copy()
        return v
    return v


def has_pending(v):
    return isinstance(v, sr.FermionicArray) and any(
        p == -1 and s in v.blocks for s, p in raw_phases(v).items()
    )


def shares_memory(a, b):
    """Do two symmray values share any block buffer?"""
    try:
        for x in a.blocks.values():
            for y in b.blocks.values():
                if np.shares_memory(x, y):
                    return True
    except Exception:
        pass
    return False


# ------------------------------------------ snapshot-level close comparison


def _blocks_of_snap(s):
    if s[0] in ("A", "F"):
        return s[5]
    if s[0] == "V":
        return s[1]
    return None


def snap_close(s1, s2, rtol=1e-12, atol=1e-13):
    """Compare two snapshots: everything except block data must be equal
    (including block order, dtypes and shapes); block data within tolerance.
    Returns None if equal else a reason string."""
    if s1 == s2:
        return None
    if not (isinstance(s1, tuple) and isinstance(s2, tuple)) or s1[:1] != s2[:1]:
        return "kind"
    k = s1[0]
    if k == "T":
        if len(s1) != len(s2):
            return "tuple length"
        for i, (a, b) in enumerate(zip(s1[1:], s2[1:])):
            r = snap_close(a, b, rtol, atol)
            if r:
                return f"[{i}] {r}"
        return None
    if k == "S":
        a = np.frombuffer(s1[2], dtype=s1[1].split(":")[0])
        b = np.frombuffer(s2[2], dtype=s2[1].split(":")[0])
        if s1[1] != s2[1]:
            return f"scalar dtype {s1[1]} vs {s2[1]}"
        return None if _close(a, b, rtol, atol) else "scalar value"
    if k in ("A", "F", "V"):
        b1, b2 = _blocks_of_snap(s1), _blocks_of_snap(s2)
        rest1 = tuple(x for i, x in enumerate(s1) if x is not b1)
        rest2 = tuple(x for i, x in enumerate(s2) if x is not b2)
        if rest1 != rest2:
            f = diff_field(s1, s2)
            return f"{f}: {describe_diff(rest1, rest2)}"
        if [x[0] for x in b1] != [x[0] for x in b2]:
            return f"sectors/order: {[x[0] for x in b1][:4]} vs {[x[0] for x in b2][:4]}"
        for (sec, (dt1, sh1, by1)), (_, (dt2, sh2, by2)) in zip(b1, b2):
            if dt1 != dt2 or sh1 != sh2:
                return f"block {sec}: {dt1}{sh1} vs {dt2}{sh2}"
            x = np.frombuffer(by1, dtype=dt1.split(":")[0])
            y = np.frombuffer(by2, dtype=dt2.split(":")[0])
            if not _close(x, y, rtol, atol):
                return f"values at sector {sec}"
        return None
    return None if s1 == s2 else "value"
