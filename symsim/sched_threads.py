"""Deterministic thread-interleaving simulator (baton scheduler).

Real ``threading.Thread``s, but exactly one of them holds the baton at any
time: every other one is parked on its own semaphore. The holder reaches a
pre-emption point at every line / call / return event in a frame of a file
under /repo/symmray (``sys.settrace``) and at every bytecode instruction of
the *hot* functions (``sys.monitoring`` INSTRUCTION events), and asks the
scheduler whether to hand the baton over. Who runs is therefore exactly the
recorded decision list: one seed, one interleaving.
"""

import dis
import sys
import threading
import types

from .core import SYMMRAY_DIR, HarnessError

TOOL_ID = 3
_mon = sys.monitoring


# ------------------------------------------------------------------ hot set


def _iter_code(code):
    yield code
    for c in code.co_consts:
        if isinstance(c, types.CodeType):
            yield from _iter_code(c)


def _module_functions(mod):
    seen = set()

    def visit(obj):
        fn = None
        if isinstance(obj, (types.FunctionType,)):
            fn = obj
        elif isinstance(obj, (staticmethod, classmethod)):
            fn = obj.__func__
        elif isinstance(obj, property):
            for f in (obj.fget, obj.fset, obj.fdel):
                if f is not None:
                    visit(f)
            return
        elif hasattr(obj, "__wrapped__") and isinstance(obj.__wrapped__, types.FunctionType):
            fn = obj.__wrapped__
        if fn is None or not isinstance(fn, types.FunctionType):
            return
        code = fn.__code__
        if not code.co_filename.startswith(SYMMRAY_DIR):
            return
        for c in _iter_code(code):
            if c not in seen:
                seen.add(c)
                yield_list.append(c)

    yield_list = []
    for v in list(vars(mod).values()):
        if isinstance(v, type) and getattr(v, "__module__", None) == mod.__name__:
            for a in list(vars(v).values()):
                visit(a)
        else:
            visit(v)
    return yield_list


def compute_hot_set():
    """Classify every code object of the library: tier 'A' (touches module
    level mutable state), tier 'B' (stores attributes on objects outside
    __init__ / mutates while iterating), else cold. Computed with ``dis`` so
    that it follows a changed tree."""
    tiers = {}
    mods = [m for n, m in sorted(sys.modules.items())
            if (n == "symmray" or n.startswith("symmray.")) and
            (getattr(m, "__file__", "") or "").startswith(SYMMRAY_DIR)]
    per_mod = {}
    for mod in mods:
        codes = _module_functions(mod)
        stored = set()
        for c in codes:
            for ins in dis.get_instructions(c):
                if ins.opname == "STORE_GLOBAL":
                    stored.add(ins.argval)
        # every module-level object that is not evidently immutable or code
        # (dicts, lists, sets, but also buffers, deques, arbitrary instances)
        benign = (types.ModuleType, types.FunctionType, types.BuiltinFunctionType, type,
                  int, float, complex, str, bytes, bool, type(None), tuple, frozenset)
        mutable = {k for k, v in vars(mod).items()
                   if not k.startswith("__") and not isinstance(v, benign) and not callable(v)}
        per_mod[mod.__name__] = (codes, stored, mutable)
    for mname, (codes, stored, mutable) in per_mod.items():
        watch = stored | mutable
        for c in codes:
            tier = None
            has_store_attr = False
            for ins in dis.get_instructions(c):
                if ins.opname in ("STORE_GLOBAL", "DELETE_GLOBAL"):
                    tier = "A"
                    break
                if ins.opname in ("LOAD_GLOBAL", "LOAD_NAME") and ins.argval in watch:
                    tier = "A"
                    break
                if ins.opname in ("STORE_ATTR", "DELETE_ATTR", "STORE_SUBSCR", "DELETE_SUBSCR"):
                    has_store_attr = True
            if tier is None and has_store_attr and c.co_name not in ("__init__", "<module>"):
                tier = "B"
            if tier:
                tiers[c] = tier
    return tiers


_WRITE_OPS = {"STORE_ATTR", "DELETE_ATTR", "STORE_SUBSCR", "DELETE_SUBSCR",
              "STORE_GLOBAL", "DELETE_GLOBAL"}
_write_adjacent = {}


def write_adjacent_offsets(code):
    """Instruction offsets right after (and at) a store to an attribute, a
    subscript or a global: where a thread has just published, or is about to
    publish, part of a multi-step update."""
    r = _write_adjacent.get(code)
    if r is None:
        r = set()
        prev_write = False
        for ins in dis.get_instructions(code):
            if prev_write:
                r.add(ins.offset)
            prev_write = ins.opname in _WRITE_OPS
            if prev_write:
                r.add(ins.offset)
        _write_adjacent[code] = r
    return r


def code_id(code):
    return [code.co_filename[len(SYMMRAY_DIR):], code.co_name, code.co_firstlineno]


def discover_executed(tiers, fn):
    """Run fn() and return the hot code objects it executed (PY_START events,
    each disabled after its first firing: near-zero overhead)."""
    seen = []

    def cb(code, offset):
        seen.append(code)
        return _mon.DISABLE

    _mon.use_tool_id(TOOL_ID, "symsim-discover")
    try:
        _mon.register_callback(TOOL_ID, _mon.events.PY_START, cb)
        for c in tiers:
            _mon.set_local_events(TOOL_ID, c, _mon.events.PY_START)
        fn()
    finally:
        for c in tiers:
            try:
                _mon.set_local_events(TOOL_ID, c, 0)
            except Exception:  # noqa: BLE001
                pass
        _mon.register_callback(TOOL_ID, _mon.events.PY_START, None)
        _mon.free_tool_id(TOOL_ID)
        _mon.restart_events()
    out = []
    for c in seen:
        if c not in out:
            out.append(c)
    return out


# ---------------------------------------------------------------- scheduler


class Policy:
    """Decides, at each pre-emption point, whether to switch and to whom."""

    def __init__(self, kind, rng=None, p_a=0.3, p_b=0.05, p_cold=0.001,
                 pct_points=(), recorded=None, recorded_exits=None,
                 breakpoint=None, occurrence=1):
        self.kind = kind
        self.rng = rng
        self.p = {"A": p_a, "B": p_b, None: p_cold}
        self.pct_points = set(pct_points)
        self.recorded = recorded or {}
        self.recorded_exits = list(recorded_exits or [])
        self.hot_events = 0
        # "breakpoint": the first thread to reach one chosen (code, instruction)
        # site for the k-th time is parked there until every other thread has
        # finished -- one pre-emption, placed exactly, instead of p^k luck
        self.breakpoint = breakpoint
        self.occurrence = occurrence
        # general form: several (site, occurrence) breakpoints, each parks the
        # first thread that reaches it; parked threads are released (fifo or
        # lifo) only when no unparked thread is left
        self.breakpoints = []
        if breakpoint is not None:
            self.breakpoints.append([breakpoint, occurrence, 0, False])
        self.parked = None
        self.parked_list = []
        self.release = "fifo"

    def decide(self, point, tid, tier, runnable, code=None, where=None):
        if self.kind == "breakpoint":
            for bp in self.breakpoints:
                if bp[3] or bp[0] != (code, where) or tid in self.parked_list:
                    continue
                bp[2] += 1
                if bp[2] != bp[1]:
                    continue
                others = [t for t in runnable if t != tid]
                free = [t for t in others if t not in self.parked_list]
                if free:
                    bp[3] = True
                    self.parked_list.append(tid)
                    self.parked = tid
                    return self.rng.choice(sorted(free))
                if self.parked_list:
                    # everybody else is parked: swap with one of them
                    bp[3] = True
                    to = self.parked_list.pop(0 if self.release == "fifo" else -1)
                    self.parked_list.append(tid)
                    self.parked = tid
                    return to
            return None
        if self.kind == "recorded":
            to = self.recorded.get(point)
            if to is not None and to in runnable:
                return to
            return None
        if self.kind == "sequential":
            return None
        others = [t for t in runnable if t != tid]
        if not others:
            return None
        if self.kind == "pct":
            if tier is not None:
                self.hot_events += 1
                if self.hot_events in self.pct_points:
                    return self.rng.choice(others)
            return None
        # biased / uniform
        if self.rng.random() < self.p[tier]:
            return self.rng.choice(others)
        return None

    def pick_next(self, runnable):
        """Who runs when the holder finishes (or at the very start)."""
        if self.kind == "recorded":
            return None
        if not runnable:
            return None
        if self.kind == "sequential":
            return min(runnable)
        if self.kind == "breakpoint":
            free = [t for t in runnable if t not in self.parked_list]
            if free:
                return min(free)
            live = [t for t in self.parked_list if t in runnable]
            if not live:
                return min(runnable) if runnable else None
            to = live[0] if self.release == "fifo" else live[-1]
            self.parked_list.remove(to)
            return to
        return self.rng.choice(sorted(runnable))


class Baton:
    def __init__(self, fns, policy, tiers, max_points=60_000_000, wait=120.0,
                 instruction_level=True, extra_instruction_codes=(),
                 line_level=True, only_instruction_codes=None):
        self.fns = fns
        self.n = len(fns)
        self.policy = policy
        self.tiers = tiers
        self.max_points = max_points
        self.wait = wait
        self.sems = [threading.Semaphore(0) for _ in range(self.n)]
        self.main_sem = threading.Semaphore(0)
        self.alive = set(range(self.n))
        self.current = None
        self.point = 0
        self.switches = []          # (point, to)
        self.exit_picks = []        # thread chosen at each thread exit / start
        self.switch_sites = set()   # (function, line) where a switch happened
        self.hot_points = 0
        self.tidmap = {}
        self.errors = []
        self.site_counts = {}       # (code, -offset-1) -> times reached (hot sites only)
        self.record_sites = False
        self.instruction_level = instruction_level
        self.extra_codes = list(extra_instruction_codes)
        self.line_level = line_level
        self.only_codes = only_instruction_codes
        self._exit_i = 0

    # -- tracing
    def _make_tracer(self, tid):
        baton = self
        tiers = self.tiers

        def local(frame, event, arg):
            if baton.current == tid:
                baton.yield_point(tid, frame.f_code, frame.f_lineno)
            return local

        def glob(frame, event, arg):
            code = frame.f_code
            if code.co_filename.startswith(SYMMRAY_DIR):
                if baton.current == tid:
                    baton.yield_point(tid, code, frame.f_lineno)
                return local
            return None

        return glob

    def _on_instruction(self, code, offset):
        tid = self.tidmap.get(threading.get_ident())
        if tid is None or tid != self.current:
            return
        self.yield_point(tid, code, -offset - 1)

    def yield_point(self, tid, code, where):
        self.point += 1
        if self.point > self.max_points:
            raise HarnessError("thread simulation exceeded its step cap")
        tier = self.tiers.get(code)
        if tier is not None:
            self.hot_points += 1
            if self.record_sites and where < 0:
                k = (code, where)
                self.site_counts[k] = self.site_counts.get(k, 0) + 1
        to = self.policy.decide(self.point, tid, tier, self.alive, code, where)
        if to is None or to == tid or to not in self.alive:
            return
        self.switches.append((self.point, to))
        self.switch_sites.add((code.co_name, where))
        self.current = to
        self.sems[to].release()
        if not self.sems[tid].acquire(timeout=self.wait):
            raise HarnessError(f"thread {tid} was never rescheduled (stall)")

    # -- thread bodies
    def _next_on_exit(self):
        if self.policy.kind == "recorded":
            if self._exit_i < len(self.policy.recorded_exits):
                to = self.policy.recorded_exits[self._exit_i]
                self._exit_i += 1
                if to in self.alive:
                    return to
            return min(self.alive) if self.alive else None
        to = self.policy.pick_next(self.alive)
        self.exit_picks.append(to)
        return to

    def _thread(self, tid):
        self.tidmap[threading.get_ident()] = tid
        if not self.sems[tid].acquire(timeout=self.wait):
            self.errors.append(HarnessError(f"thread {tid} never started"))
            return
        if self.line_level:
            sys.settrace(self._make_tracer(tid))
        try:
            self.fns[tid]()
        except HarnessError as e:
            self.errors.append(e)
        except BaseException as e:  # noqa: BLE001
            self.errors.append(HarnessError(f"thread {tid} leaked {type(e).__name__}: {e}"))
        finally:
            sys.settrace(None)
            self.alive.discard(tid)
            to = self._next_on_exit() if self.alive else None
            if to is None:
                self.current = None
                self.main_sem.release()
            else:
                self.current = to
                self.sems[to].release()

    def run(self):
        hot_codes = [c for c, t in self.tiers.items() if t == "A"] if self.instruction_level else []
        hot_codes = hot_codes + [c for c in self.extra_codes if c not in hot_codes]
        if self.only_codes is not None:
            hot_codes = list(self.only_codes)
        registered = False
        try:
            if hot_codes:
                try:
                    _mon.use_tool_id(TOOL_ID, "symsim")
                    registered = True
                    _mon.register_callback(TOOL_ID, _mon.events.INSTRUCTION, self._on_instruction)
                    for c in hot_codes:
                        _mon.set_local_events(TOOL_ID, c, _mon.events.INSTRUCTION)
                except ValueError as e:
                    raise HarnessError(f"sys.monitoring tool id busy: {e}")
            threads = [threading.Thread(target=self._thread, args=(i,), name=f"sim-{i}", daemon=True)
                       for i in range(self.n)]
            for t in threads:
                t.start()
            first = self._next_on_exit()
            self.current = first
            self.sems[first].release()
            if not self.main_sem.acquire(timeout=self.wait * 4):
                raise HarnessError("thread simulation stalled (main never woken)")
            for t in threads:
                t.join(timeout=self.wait)
                if t.is_alive():
                    raise HarnessError("simulated thread did not finish")
        finally:
            if registered:
                for c in hot_codes:
                    try:
                        _mon.set_local_events(TOOL_ID, c, 0)
                    except Exception:  # noqa: BLE001
                        pass
                _mon.register_callback(TOOL_ID, _mon.events.INSTRUCTION, None)
                _mon.free_tool_id(TOOL_ID)
        if self.errors:
            raise self.errors[0]
        return self
