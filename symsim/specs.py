"""JSON-able array specs: generation (seeded) and construction.

A spec is self-contained, so several replicas can build bit-identical worlds
and replay files need nothing but themselves. Inputs are valid *by
construction* using the independent group arithmetic in ``groups``.
"""

import hashlib
import itertools

import numpy as np

from .core import sr, untuple, jsonable, HarnessError
from .groups import GROUPS

ABELIAN_STATIC = {
    "Z2": "Z2Array",
    "U1": "U1Array",
    "Z2Z2": "Z2Z2Array",
    "U1U1": "U1U1Array",
}
FERMI_STATIC = {
    "Z2": "Z2FermionicArray",
    "U1": "U1FermionicArray",
    "Z2Z2": "Z2Z2FermionicArray",
    "U1U1": "U1U1FermionicArray",
}

CHARGE_POOL = {
    "Z2": [0, 1],
    "Z4": [0, 1, 2, 3],
    "U1": [-2, -1, 0, 1, 2],
    "Z2Z2": [(0, 0), (0, 1), (1, 0), (1, 1)],
    "U1U1": [(0, 0), (0, 1), (1, 0), (1, 1), (-1, 0), (0, -1), (1, -1), (-1, 1)],
}

DTYPES = ["float64", "complex128", "float32", "complex64"]


def get_class(kind, sym, static):
    if kind == "A":
        if static and sym in ABELIAN_STATIC:
            return getattr(sr, ABELIAN_STATIC[sym]), False
        return sr.AbelianArray, True
    if static and sym in FERMI_STATIC:
        return getattr(sr, FERMI_STATIC[sym]), False
    return sr.FermionicArray, True


# ------------------------------------------------------------ generation


def gen_index(rng, sym, max_charges=3, max_size=3, dual=None, force_zero=False):
    pool = CHARGE_POOL[sym]
    n = rng.randint(1, min(max_charges, len(pool)))
    cs = rng.sample(pool, n)
    if force_zero:
        z = GROUPS[sym].zero
        if z not in cs:
            cs[0] = z
    cm = sorted((c, rng.randint(1, max_size)) for c in cs)
    return {
        "cm": [[c, d] for c, d in cm],
        "dual": bool(rng.random() < 0.5) if dual is None else bool(dual),
    }


def conj_index_spec(ix):
    return {"cm": [list(p) for p in ix["cm"]], "dual": not ix["dual"]}


def valid_sectors(sym, indices, charge):
    """All charge-conserving sectors, by the independent group arithmetic."""
    g = GROUPS[sym]
    charge = untuple(charge)
    out = []
    pools = [[untuple(c) for c, _ in ix["cm"]] for ix in indices]
    for sec in itertools.product(*pools):
        tot = g.add(*(g.signed(c, ix["dual"]) for c, ix in zip(sec, indices)))
        if tot == charge:
            out.append(sec)
    return out


def pick_charge(rng, sym, indices, want_parity=None):
    """A total charge for which at least one sector is valid."""
    g = GROUPS[sym]
    pools = [[untuple(c) for c, _ in ix["cm"]] for ix in indices]
    cands = []
    for sec in itertools.product(*pools):
        cands.append(
            g.add(*(g.signed(c, ix["dual"]) for c, ix in zip(sec, indices)))
        )
    cands = sorted(set(cands), key=repr)
    if not cands:
        return g.zero
    if want_parity is not None:
        f = [c for c in cands if g.parity(c) == want_parity]
        if f:
            cands = f
    return rng.choice(cands)


class LabelMaker:
    """Distinct, mutually sortable odd-position labels for one run."""

    def __init__(self, rng, style=None):
        self.style = style or rng.choice(["int", "str", "tuple"])
        self.pool = list(range(1, 60))
        rng.shuffle(self.pool)

    def next(self):
        k = self.pool.pop()
        if self.style == "int":
            return k
        if self.style == "str":
            return f"s{k:02d}"
        return [k % 7, k]


def gen_spec(
    rng,
    kind=None,
    sym=None,
    ndim=None,
    labels=None,
    indices=None,
    charge=None,
    sparsity=0.0,
    dtype=None,
    static=None,
    dist=None,
    want_parity=None,
    max_charges=3,
    max_size=3,
    syms=("Z2", "U1", "Z2Z2", "U1U1"),
    via=None,
):
    kind = kind or rng.choice(["A", "F"])
    sym = sym or rng.choice(list(syms))
    if indices is None:
        if ndim is None:
            ndim = rng.choice([1, 2, 2, 3, 3, 3, 4])
        indices = [
            gen_index(rng, sym, max_charges=max_charges, max_size=max_size)
            for _ in range(ndim)
        ]
        if len(indices) >= 2 and rng.random() < 0.08:
            # two legs with the very same table and direction
            i_, j_ = rng.sample(range(len(indices)), 2)
            indices[j_] = {"cm": [list(p) for p in indices[i_]["cm"]],
                           "dual": indices[i_]["dual"]}
    if charge is None:
        charge = pick_charge(rng, sym, indices, want_parity)
    secs = valid_sectors(sym, indices, charge)
    if sparsity and len(secs) > 1:
        kept = [s for s in secs if rng.random() >= sparsity]
        if not kept:
            kept = [rng.choice(secs)]
        secs = kept
    if rng.random() < 0.3:
        rng.shuffle(secs)
    if static is None:
        static = rng.random() < 0.6
    if sym == "Z4":
        static = False
    spec = {
        "kind": kind,
        "sym": sym,
        "static": bool(static),
        "indices": jsonable(indices),
        "charge": jsonable(charge),
        "sectors": jsonable(secs),
        "dtype": dtype or rng.choice(DTYPES[:2] * 3 + DTYPES[2:]),
        "seed": rng.randrange(2**31),
        "dist": dist or rng.choice(["int", "int", "normal"]),
    }
    if via is not None:
        spec["via"] = via
    if kind == "F":
        g = GROUPS[sym]
        if g.parity(untuple(charge)):
            if labels is None:
                raise HarnessError("odd fermionic spec needs a LabelMaker")
            spec["oddpos"] = labels.next()
        else:
            spec["oddpos"] = None
    return spec


# ---------------------------------------------------------- construction


def _block_data(spec, sector, shape):
    key = hashlib.sha256(
        repr((spec["seed"], jsonable(sector))).encode()
    ).digest()
    rng = np.random.default_rng(int.from_bytes(key[:8], "big"))
    dtype = spec["dtype"]
    dist = spec.get("dist", "int")

    def draw():
        if dist == "zero":
            return np.zeros(shape)
        if dist == "int":
            x = np.asarray(rng.integers(-3, 4, size=shape)).astype("float64")
            # avoid all-zero blocks: they are legal but uninformative
            if x.size and not x.any():
                x = x + 1.0
            return x
        return rng.normal(size=shape)

    if dist == "nan":
        dist = "normal"
        x = np.asarray(draw(), dtype="float64").reshape(shape)
        if x.size:
            x.flat[0] = np.nan
        if "complex" in dtype:
            x = x + 1j * np.asarray(draw(), dtype="float64").reshape(shape)
        return np.array(x.astype(dtype), order="C", copy=True).reshape(shape)
    x = np.asarray(draw(), dtype="float64").reshape(shape)
    if "complex" in dtype:
        x = x + 1j * np.asarray(draw(), dtype="float64").reshape(shape)
    return np.array(x.astype(dtype), order="C", copy=True).reshape(shape)


def make_indices(spec):
    """Index objects of a spec. The argument form of the charge table varies
    (decided by the spec's data seed, so nothing else shifts): mostly a sorted
    dict, sometimes a dict in descending order or an iterable of pairs in
    descending order - the constructor promises to sort either."""
    out = []
    seed = int(spec.get("seed", 0) or 0)
    for i, ix in enumerate(spec["indices"]):
        items = [(untuple(c), int(d)) for c, d in ix["cm"]]
        form = (seed // 7 + 3 * i) % 12
        if form == 0:
            cm = dict(reversed(items))
        elif form == 1:
            cm = list(reversed(items))
        else:
            cm = dict(items)
        # one index *object* on two axes (indices are immutable value
        # objects; users do write ``[ix, ix, iy]``): when an earlier axis has
        # the very same table and direction, sometimes reuse its object
        same = [j for j in range(i) if spec["indices"][j]["cm"] == ix["cm"]
                and bool(spec["indices"][j]["dual"]) == bool(ix["dual"])]
        if same and (seed // 23 + i) % 2 == 0:
            out.append(out[same[0]])
            continue
        out.append(sr.BlockIndex(cm, dual=bool(ix["dual"])))
    return tuple(out)


def oddpos_arg(label):
    """JSON label -> value accepted by the public ``oddpos=`` argument."""
    return untuple(label)


def build(spec):
    """Build the array described by ``spec`` through a public constructor
    (``spec["via"]``: the class itself, ``random``, ``from_fill_fn``,
    ``from_blocks`` or ``from_dense``)."""
    if spec.get("via") == "get_rand":
        # the library's own random-array helper (public, used by its tests):
        # shape entries are ints, explicit charge->size dicts or BlockIndex
        shape = []
        for e in spec["shape"]:
            if isinstance(e, int):
                shape.append(e)
            elif e.get("as") == "index":
                shape.append(sr.BlockIndex({untuple(c): int(d) for c, d in e["cm"]},
                                           dual=bool(e["dual"])))
            else:
                shape.append({untuple(c): int(d) for c, d in e["cm"]})
        kw = {}
        if spec["kind"] == "F" and spec.get("oddpos") is not None:
            kw["oddpos"] = oddpos_arg(spec["oddpos"])
        duals = spec.get("duals")
        return sr.utils.get_rand(
            spec["sym"], tuple(shape), duals=duals, charge=untuple(spec["charge"]),
            seed=spec["seed"], fermionic=spec["kind"] == "F",
            subsizes=spec.get("subsizes"), dtype=spec.get("dtype", "float64"), **kw)
    cls, dynamic = get_class(spec["kind"], spec["sym"], spec["static"])
    indices = make_indices(spec)
    charge = untuple(spec["charge"])
    sectors = [untuple(s) for s in spec["sectors"]]
    via = spec.get("via", "init")
    kw = {}
    if spec["kind"] == "F":
        kw["oddpos"] = oddpos_arg(spec.get("oddpos"))
        if spec.get("phases"):
            kw["phases"] = {untuple(t): -1 for t in spec["phases"]}

    def data(sec):
        shape = tuple(ix.size_of(c) for ix, c in zip(indices, sec))
        return _block_data(spec, sec, shape)

    seed_ = int(spec.get("seed", 0) or 0)
    # argument forms decided by the data seed: the symmetry of a dynamic class
    # as an object instead of its name; a zero total charge left out
    symarg = sr.get_symmetry(spec["sym"]) if (seed_ // 13) % 3 == 0 else spec["sym"]
    zero_omitted = (seed_ // 17) % 3 == 0 and charge == GROUPS[spec["sym"]].zero
    if via in ("random", "from_fill_fn"):
        symkw = {"symmetry": symarg} if dynamic else {}
        if zero_omitted:
            charge = None
        if via == "random":
            dist = "normal" if spec.get("dist") != "uniform" else "uniform"
            x = cls.random(indices, charge=charge, seed=spec["seed"], dist=dist,
                           dtype=spec["dtype"], **symkw, **kw)
        else:
            order = iter(range(10**6))

            def fill(shape):
                rng = np.random.default_rng([spec["seed"], next(order)])
                z = rng.integers(-3, 4, size=shape).astype("float64") + 0.5
                if "complex" in spec["dtype"]:
                    z = z + 1j * rng.integers(-3, 4, size=shape)
                return np.asarray(z).astype(spec["dtype"])

            x = cls.from_fill_fn(fill, indices, charge=charge, **symkw, **kw)
        # the library fills every sector it considers valid: keep the listed
        # ones (only sectors that *are* valid by the independent arithmetic
        # are thinned out: a block the library put somewhere else stays where
        # the auditor will find it)
        keep = set(sectors)
        valid = set(valid_sectors(spec["sym"], spec["indices"], untuple(spec["charge"])))
        for s in list(x.blocks):
            if s not in keep and s in valid:
                del x.blocks[s]
        return x
    blocks = {sec: data(sec) for sec in sectors}
    if via == "from_blocks" and blocks:
        duals = [ix.dual for ix in indices]
        return cls.from_blocks(blocks, duals, charge=None if zero_omitted else charge,
                               symmetry=symarg if dynamic else None, **kw)
    if via == "from_dense" and not dynamic and indices:
        # labels of the dense axes, in sorted-charge order of each index
        tmp = cls(indices=indices, charge=charge, blocks=blocks, **kw)
        if tmp.num_blocks:
            dense = tmp.to_dense()
            maps = []
            for ix in indices:
                m = {}
                i = 0
                for c in sorted(ix.chargemap):
                    for _ in range(ix.chargemap[c]):
                        m[i] = c
                        i += 1
                maps.append(m)
            if (seed_ // 19) % 3 == 0 and spec["sym"] != "Z4" and not kw.get("phases") \
                    and not kw.get("oddpos"):
                # the module-level helper that picks the class by name
                return sr.utils.from_dense(dense, spec["sym"], maps, [ix.dual for ix in indices],
                                           fermionic=spec["kind"] == "F", charge=charge)
            return cls.from_dense(dense, maps, [ix.dual for ix in indices],
                                  charge=charge, invalid_sectors="ignore", **kw)
    if dynamic:
        kw["symmetry"] = symarg
    if (int(spec.get("seed", 0) or 0) // 11) % 5 == 0 and (
            blocks or charge == GROUPS[spec["sym"]].zero):
        # documented form: the total charge left out ("inferred from either
        # the first sector or set to the identity charge")
        return cls(indices=indices, blocks=blocks, **kw)
    return cls(indices=indices, charge=charge, blocks=blocks, **kw)


def build_vector(spec):
    """BlockVector spec: {"cm": [[c, d]...], "seed":, "dtype":, "positive":}"""
    blocks = {}
    for c, d in spec["cm"]:
        c = untuple(c)
        sub = dict(spec, dist=spec.get("dist", "int"))
        x = _block_data(sub, (c,), (int(d),))
        if spec.get("positive"):
            x = np.abs(x) + 1.0
        blocks[c] = x.astype(spec["dtype"])
    return sr.BlockVector(blocks)


def index_spec_of(ix):
    """Spec (without sub-index info) of a live BlockIndex."""
    return {
        "cm": [[jsonable(c), int(d)] for c, d in ix.chargemap.items()],
        "dual": bool(ix.dual),
    }


# ------------------------------------------------- near-identical variants


def _finish_variant(rng, spec, indices, labels, sectors=None, charge=None, sym=None):
    """Re-derive a valid spec after an attribute change."""
    sym = sym or spec["sym"]
    g = GROUPS[sym]
    charge = untuple(spec["charge"]) if charge is None else charge
    if sectors is None:
        secs = valid_sectors(sym, indices, charge)
        if not secs:
            charge = pick_charge(rng, sym, indices)
            secs = valid_sectors(sym, indices, charge)
        old = {tuple(untuple(s)) for s in spec["sectors"]}
        full_old = len(old)
        # keep roughly the same sparsity pattern
        keep = [s for s in secs if tuple(s) in old]
        extra = [s for s in secs if tuple(s) not in old]
        secs = keep + [s for s in extra if rng.random() < 0.7]
        if not secs:
            secs = valid_sectors(sym, indices, charge)[:1]
    else:
        secs = sectors
    new = dict(spec)
    new.pop("phases", None)  # a sign table only makes sense for the sectors it was drawn for
    new.update(sym=sym, indices=jsonable(indices), charge=jsonable(charge),
               sectors=jsonable(secs))
    if sym == "Z4":
        new["static"] = False
    if spec["kind"] == "F":
        if g.parity(charge):
            if new.get("oddpos") is None:
                new["oddpos"] = labels.next()
        else:
            new["oddpos"] = None
    return new


def variant_of(rng, spec, labels, kinds=None):
    """A spec that differs from ``spec`` in exactly one attribute.
    Returns (kind_of_change, new_spec) or (None, None)."""
    import copy

    idx = copy.deepcopy(spec["indices"])
    nd = len(idx)
    kinds = list(kinds or ["dual", "size", "label", "sector", "sym", "data", "charge", "dtype"])
    rng.shuffle(kinds)
    for kind in kinds:
        if kind == "dual" and nd:
            i = rng.randrange(nd)
            idx[i]["dual"] = not idx[i]["dual"]
            return kind, _finish_variant(rng, spec, idx, labels)
        if kind == "size" and nd:
            i = rng.randrange(nd)
            j = rng.randrange(len(idx[i]["cm"])) if idx[i]["cm"] else None
            if j is None:
                continue
            d = idx[i]["cm"][j][1]
            idx[i]["cm"][j][1] = d + 1 if d < 3 or rng.random() < 0.5 else d - 1
            return kind, _finish_variant(rng, spec, idx, labels,
                                         sectors=[untuple(s) for s in spec["sectors"]])
        if kind == "label" and nd:
            i = rng.randrange(nd)
            have = [untuple(c) for c, _ in idx[i]["cm"]]
            pool = [c for c in CHARGE_POOL[spec["sym"]] if c not in have]
            if not pool or not have:
                continue
            j = rng.randrange(len(have))
            idx[i]["cm"][j][0] = jsonable(rng.choice(pool))
            idx[i]["cm"] = [list(p) for p in sorted(
                (untuple(c), d) for c, d in idx[i]["cm"])]
            idx[i]["cm"] = [[jsonable(c), d] for c, d in idx[i]["cm"]]
            return kind, _finish_variant(rng, spec, idx, labels)
        if kind == "sector" and len(spec["sectors"]) > 1:
            secs = [untuple(s) for s in spec["sectors"]]
            secs.pop(rng.randrange(len(secs)))
            return kind, _finish_variant(rng, spec, idx, labels, sectors=secs)
        if kind == "charge" and nd:
            ch = pick_charge(rng, spec["sym"], idx)
            if ch == untuple(spec["charge"]):
                continue
            return kind, _finish_variant(rng, spec, idx, labels, charge=ch)
        if kind == "sym":
            # same labels, different group: Z2 / U1 / Z4 on charges {0, 1},
            # Z2Z2 / U1U1 on {0,1}x{0,1}
            fam = [["Z2", "U1", "Z4"], ["Z2Z2", "U1U1"]]
            mine = [f for f in fam if spec["sym"] in f]
            if not mine:
                continue
            allowed = {"Z2": (0, 1), "U1": (0, 1), "Z4": (0, 1),
                       "Z2Z2": ((0, 0), (0, 1), (1, 0), (1, 1)),
                       "U1U1": ((0, 0), (0, 1), (1, 0), (1, 1))}[spec["sym"]]
            if any(untuple(c) not in allowed for ix in idx for c, _ in ix["cm"]):
                continue
            ch = untuple(spec["charge"])
            if ch not in allowed:
                continue
            other = rng.choice([x for x in mine[0] if x != spec["sym"]])
            secs = [untuple(s) for s in spec["sectors"]]
            ok = valid_sectors(other, idx, ch)
            if any(s not in ok for s in secs):
                # keep the sectors valid in both groups
                secs = [s for s in secs if s in ok]
                if not secs:
                    continue
            return kind, _finish_variant(rng, spec, idx, labels, sectors=secs,
                                         charge=ch, sym=other)
        if kind == "data":
            new = dict(spec)
            new["seed"] = rng.randrange(2**31)
            return kind, new
        if kind == "dtype":
            new = dict(spec)
            new["dtype"] = rng.choice([d for d in DTYPES if d != spec["dtype"]])
            return kind, new
    return None, None
