"""Delta debugging of a failing program: drop steps (steps whose operands
disappear are skipped by the executors, which gives dependency closure for
free), keeping only candidates that fail with the same signature."""

import copy

from .core import HarnessError


def _sig(v):
    return None if v is None else (v["oracle"], v["where"])


def make_test(engine, program, sig):
    calls = [0]

    def fails(steps):
        calls[0] += 1
        p = dict(program, steps=copy.deepcopy(steps))
        try:
            out = engine.execute(p)
        except HarnessError:
            return False
        except Exception:  # noqa: BLE001 - a candidate that breaks the harness is just rejected
            return False
        return _sig(out.violation) == sig

    return fails, calls


def shrink_specs(steps, fails, calls, budget):
    """Operand simplification: for every constructed array try, in turn,
    fewer stored sectors, block extents of 1, and tables without unused
    charges; keep a change only if the same violation persists."""
    def specs_of(st):
        out = []
        for i, s in enumerate(st):
            a = s.get("a")
            if isinstance(a, dict) and isinstance(a.get("spec"), dict) and "indices" in a["spec"]:
                out.append((i, None))
            if s.get("op") == "@net":
                for k, t in enumerate(s["net"]["tensors"]):
                    if "spec" in t:
                        out.append((i, k))
        return out

    def get(st, ref):
        i, k = ref
        return st[i]["a"]["spec"] if k is None else st[i]["net"]["tensors"][k]["spec"]

    for ref in specs_of(steps):
        if calls[0] >= budget:
            break
        # 1. drop stored sectors one at a time
        j = 0
        while calls[0] < budget:
            sp = get(steps, ref)
            if j >= len(sp["sectors"]) or len(sp["sectors"]) <= 1:
                break
            cand = copy.deepcopy(steps)
            get(cand, ref)["sectors"].pop(j)
            if fails(cand):
                steps = cand
            else:
                j += 1
        # 2. all block extents -> 1 (only for free-standing arrays: bonds of a
        #    network must stay conjugate to each other)
        if ref[1] is None and calls[0] < budget:
            cand = copy.deepcopy(steps)
            sp = get(cand, ref)
            changed = False
            for ix in sp["indices"]:
                for p in ix["cm"]:
                    if p[1] != 1:
                        p[1] = 1
                        changed = True
            if changed and fails(cand):
                steps = cand
        # 3. integer data
        if calls[0] < budget and get(steps, ref).get("dist") != "int":
            cand = copy.deepcopy(steps)
            get(cand, ref)["dist"] = "int"
            if fails(cand):
                steps = cand
    return steps


def minimize(engine, program, violation, budget=400, extra_passes=None):
    sig = _sig(violation)
    original = program
    if hasattr(engine, "strip"):
        # recorded schedules are meaningless for shortened programs: candidates
        # run with the seed-driven (still deterministic) schedule instead
        stripped = engine.strip(program)
        f0, _ = make_test(engine, stripped, sig)
        if f0(copy.deepcopy(program["steps"])):
            program = stripped
    steps = copy.deepcopy(program["steps"])
    fails, calls = make_test(engine, program, sig)
    if not fails(steps):
        return None  # does not even reproduce in-process
    # 1. shortest failing prefix (execution stops at the violation anyway)
    lo, hi = 1, len(steps)
    while lo < hi and calls[0] < budget:
        mid = (lo + hi) // 2
        if fails(steps[:mid]):
            hi = mid
        else:
            lo = mid + 1
    if fails(steps[:hi]):
        steps = steps[:hi]
    # 2. ddmin by complement removal
    n = 2
    while len(steps) >= 2 and calls[0] < budget:
        chunk = max(1, len(steps) // n)
        reduced = False
        for i in range(0, len(steps), chunk):
            cand = steps[:i] + steps[i + chunk:]
            if cand and fails(cand):
                steps = cand
                n = max(n - 1, 2)
                reduced = True
                break
            if calls[0] >= budget:
                break
        if not reduced:
            if chunk == 1:
                break
            n = min(len(steps), n * 2)
    # 3. one-by-one removal of what is left, then engine-specific shrinking
    i = 0
    while i < len(steps) and calls[0] < budget:
        cand = steps[:i] + steps[i + 1:]
        if cand and fails(cand):
            steps = cand
        else:
            i += 1
    # 4. strip optional per-step decorations (crash points, knobs)
    for i, s in enumerate(steps):
        if calls[0] >= budget:
            break
        a = s.get("a", {})
        for key in ("style", "mode"):
            if key in a:
                cand = copy.deepcopy(steps)
                cand[i]["a"].pop(key)
                if fails(cand):
                    steps = cand
    steps = shrink_specs(steps, fails, calls, budget + 120)
    if extra_passes:
        for p in extra_passes:
            steps = p(steps, fails, calls, budget)
    out = dict(program, steps=steps)
    if hasattr(engine, "seal") and program is not original:
        sealed, o = engine.seal(out)
        if _sig(o.violation) == sig:
            out = sealed
        else:
            return None
    out["minimised_from"] = len(original["steps"])
    out["minimise_calls"] = calls[0]
    return out
