"""Operation catalogue: seeded generators of concrete, JSON-able steps and
their executor. A step names its operands on the heap, its concrete
arguments and its output names; replay needs nothing else.

    step = {"op": str, "in": [names], "out": [names], "a": {args}}

``run_step`` is the only place library entry points are called from.
"""

import numpy as np

from .core import sr, ar, LA, untuple, jsonable, HarnessError
from .groups import GROUPS
from . import specs
from .snap import kind_of

LETTERS = "abcdefghij"


# ===================================================================== run


def _call(style, name, x, *args, **kw):
    if style == "func":
        return getattr(sr, name)(x, *args, **kw)
    if style == "do":
        return ar.do(name, x, *args, **kw)
    return getattr(x, name)(*args, **kw)


def _form(seq, form):
    """The same sequence of ints in another legal argument form."""
    if seq is None or form is None:
        return seq
    if form == "list":
        return [int(i) for i in seq]
    if form == "np":
        return tuple(np.int64(i) for i in seq)
    if form == "nparray":
        return np.array([int(i) for i in seq], dtype="int64")
    if form == "neg":
        # every other axis counted from the end
        n_ = len(seq)
        return tuple(int(i) - n_ if k % 2 == 0 else int(i) for k, i in enumerate(seq))
    return tuple(int(i) for i in seq)


def run_step(step, heap):
    """Execute one step against ``heap`` (name -> value); returns the raw
    result (a value, a tuple of values, or None). Does not bind outputs."""
    op = step["op"]
    a = step.get("a", {})
    vals = [heap[n] for n in step.get("in", [])]
    st = a.get("style", "method")
    ip = {"inplace": True} if a.get("inplace") else {}
    x = vals[0] if vals else None

    if op == "new":
        return specs.build(a["spec"])
    if op == "new_local":
        # library-built local fermionic operators (dense -> from_dense path)
        fn = getattr(sr, a["fn"])
        if "edges" in a:
            # edge-wise Hamiltonian builders: one term of the returned dict
            edges = [tuple(e) for e in a["edges"]]
            args = list(a.get("args", []))
            if a.get("as") == "dict" and args:
                # parameters per edge / per site instead of one number
                sites = sorted({s_ for e in edges for s_ in e})
                args[0] = {e: args[0] for e in edges}
                if len(args) > 1 and "spinless" not in a["fn"]:
                    args[1] = {s_: args[1] for s_ in sites}
            elif a.get("as") == "callable" and args:
                t0 = args[0]
                args[0] = lambda i, j, _t=t0: _t
            terms = fn(a["sym"], edges, *args)
            return terms[edges[a["pick"]]]
        return fn(a["sym"], *a.get("args", []))
    if op == "repr":
        return len(str(x)) * 0 + len(repr(x)) * 0 + 1
    if op == "newvec":
        return specs.build_vector(a["spec"])
    if op == "copy":
        if a.get("cw"):
            return x.copy_with()
        return x.copy()
    if op == "factors":
        # the factors themselves (not only gauge-invariant observables): the
        # operand is synchronised in place first, so that every replica of a
        # lock-step run decomposes bit-identical data and gets identical factors
        if isinstance(x, sr.FermionicArray):
            x.phase_sync(inplace=True)
        # ... and signed zeros are made positive: -(0*v) and (-0)*v are equal
        # numbers but, in complex arithmetic, different bit patterns (-0-0j vs
        # +0-0j), and LAPACK's reflector signs follow the sign bit
        for k_ in list(x.blocks):
            b_ = np.asarray(x.blocks[k_])
            if b_.dtype.kind in "fc":
                x.blocks[k_] = b_ + np.zeros((), dtype=b_.dtype)
        which = a["which"]
        if which == "qr":
            return tuple(sr.linalg.qr(x, stabilized=bool(a.get("stabilized"))))
        if which == "svd":
            return tuple(sr.linalg.svd(x))
        if which == "eigh":
            return tuple(sr.linalg.eigh(x))
        kw = {k: a[k] for k in ("cutoff", "cutoff_mode", "max_bond") if k in a}
        kw["absorb"] = a.get("absorb")
        return tuple(sr.linalg.svd_truncated(x, **kw))
    if op == "index_ops":
        # methods of the (shared, "immutable") index / label objects, called
        # directly by the user; nothing is kept
        out = 0
        for ix in x.indices:
            c = ix.conj()
            out += int(c.dual != ix.dual)
            cs = list(ix.chargemap)
            if cs:
                d = ix.drop_charges([cs[a.get("k", 0) % len(cs)]])
                out += d.num_charges
            ix.copy_with(dual=not ix.dual)
            ix.hashkey()
            str(ix), repr(ix)
            ix.matches(c)
            out += ix.size_total + ix.num_charges + len(list(ix.sizes)) + len(list(ix.charges))
            if ix.subinfo is not None:
                ix.subinfo.conj()
                ix.subinfo.hashkey()
                if cs:
                    ix.subinfo.drop_charges([cs[0]])
                repr(ix.subinfo)
        if isinstance(x, sr.FermionicArray):
            od = list(x.oddpos)
            [o.dag for o in od]
            sorted(od)
            out += len(od) + int(x.parity)
        _ = (x.shape, x.size, x.ndim, x.duals, x.charges, x.sizes, x.dtype, x.backend,
             x.num_blocks, x.sectors, x.symmetry, x.charge)
        for sec in list(x.blocks)[:3]:
            out += int(bool(x.is_valid_sector(sec))) + len(x.get_block_shape(sec))
        if x.size <= 4096 and x.ndim <= 5:
            out += sum(1 for _ in x.gen_valid_sectors())
        return out
    if op == "checks":
        x.check()
        if a.get("aligned"):
            x.check_chargemaps_aligned()
        # further read-only diagnostics (their own outcome is not judged)
        try:
            ax = tuple(range(x.ndim))
            x.check_with(x.conj(), ax, ax)
        except AssertionError:
            pass
        import contextlib
        import io
        with contextlib.redirect_stdout(io.StringIO()):
            try:
                sr.abelian_core.print_fuseinfo_cache_stats()
            except ZeroDivisionError:
                pass
        return 1
    if op == "reparam":
        # the re-parametrisation round trip optimisers do with block arrays:
        # read the parameters, transform them linearly, write them into a copy
        y = x.copy()
        y.set_params({k: b * a["f"] for k, b in x.get_params().items()})
        return y
    if op == "align_inplace":
        # the documented module-level worker behind align_axes, in place
        fn = sr.abelian_core.drop_misaligned_sectors
        return tuple(fn(x, vals[1], tuple(a["axes"][0]), tuple(a["axes"][1]), inplace=True))
    if op == "get_sparsity":
        return x.get_sparsity()
    if op == "filled_copy":
        y = x.copy()
        y.fill_missing_blocks()
        return y
    if op == "plain_twin":
        # the same tensor over indices that have the same charge tables and
        # directions but no sub-index structure (a fused leg becomes a plain
        # one), built through the public constructors on copied blocks
        idx = tuple(sr.BlockIndex(dict(ix.chargemap), dual=ix.dual) for ix in x.indices)
        kw = {}
        if not type(x).static_symmetry:
            kw["symmetry"] = x.symmetry
        if isinstance(x, sr.FermionicArray):
            kw["phases"] = dict(x.phases)
            kw["oddpos"] = list(x.oddpos)
        return type(x)(indices=idx, charge=x.charge,
                       blocks={k: np.array(b, copy=True) for k, b in x.blocks.items()}, **kw)
    if op == "reassemble":
        # a new array from the public parts of another, handed to the public
        # constructor as they are
        kw = {}
        if not type(x).static_symmetry:
            kw["symmetry"] = x.symmetry
        if isinstance(x, sr.FermionicArray):
            kw["phases"] = x.phases
            kw["oddpos"] = list(x.oddpos)
        return type(x)(indices=x.indices, charge=x.charge, blocks=x.blocks, **kw)
    if op == "transpose":
        perm = None if a["perm"] is None else _form(tuple(a["perm"]), a.get("form"))
        kw = dict(ip)
        if "phase" in a:
            kw["phase"] = a["phase"]
        if st == "T":
            return x.T
        return _call(st, "transpose", x, perm, **kw)
    if op == "conj":
        kw = dict(ip)
        for k in ("phase_permutation", "phase_dual"):
            if k in a:
                kw[k] = a[k]
        return _call(st, "conj", x, **kw)
    if op == "dagger":
        kw = dict(ip)
        if "phase_dual" in a:
            kw["phase_dual"] = a["phase_dual"]
        if st == "H":
            return x.H
        return x.dagger(**kw)
    if op == "fuse":
        groups = [tuple(g) for g in a["groups"]]
        if a.get("as_list"):
            groups = [list(g) for g in a["groups"]]
        kw = dict(ip)
        for k in ("mode", "expand_empty"):
            if k in a:
                kw[k] = a[k]
        if st in ("func", "do") and not kw:
            return _call(st, "fuse", x, *groups)
        return x.fuse(*groups, **kw)
    if op == "unfuse":
        return x.unfuse(a["axis"], **ip)
    if op == "unfuse_all":
        return x.unfuse_all(**ip)
    if op == "reshape":
        shp = tuple(a["shape"])
        if a.get("form") == "list" and st not in ("func", "do"):
            shp = list(shp)
        return _call(st, "reshape", x, shp, **ip)
    if op == "squeeze":
        ax = a["axis"]
        if isinstance(ax, list):
            ax = _form(ax, a.get("form") or "tuple")
        elif isinstance(ax, int) and a.get("form") == "np":
            ax = int(np.int64(ax))
        if ip:
            return x.squeeze(ax, **ip)
        return _call(st, "squeeze", x, ax)
    if op == "expand_dims":
        kw = dict(ip)
        if a.get("c") is not None:
            kw["c"] = untuple(a["c"])
        if a.get("dual") is not None:
            kw["dual"] = a["dual"]
        if st in ("func", "do") and not kw:
            return _call(st, "expand_dims", x, a["axis"])
        return x.expand_dims(a["axis"], **kw)
    if op == "align_axes":
        axes = (tuple(a["axes"][0]), tuple(a["axes"][1]))
        return _call(st, "align_axes", x, vals[1], axes)
    if op == "sync_charges":
        return x.sync_charges(**ip)
    if op == "fill_missing_blocks":
        x.fill_missing_blocks()
        return x
    if op == "drop_missing_blocks":
        x.drop_missing_blocks()
        return x
    if op == "tensordot":
        axes = a["axes"]
        if not isinstance(axes, int):
            axes = (_form(tuple(axes[0]), a.get("form") or "tuple"),
                    _form(tuple(axes[1]), a.get("form") or "tuple"))
            if a.get("form") == "list":
                axes = [axes[0], axes[1]]
        kw = {}
        if "mode" in a:
            kw["mode"] = a["mode"]
        if "preserve_array" in a:
            kw["preserve_array"] = a["preserve_array"]
        if st == "do":
            return ar.do("tensordot", x, vals[1], axes, **kw)
        return sr.tensordot(x, vals[1], axes, **kw)
    if op == "matmul":
        return x @ vals[1]
    if op == "trace":
        return _call(st, "trace", x)
    if op == "einsum":
        kw = {}
        if a.get("preserve_array"):
            kw["preserve_array"] = True
        if st == "func" and not kw:
            return sr.einsum(a["eq"], x)
        return x.einsum(a["eq"], **kw)
    if op == "multiply_diagonal":
        if ip:
            return x.multiply_diagonal(vals[1], a["axis"], **ip)
        return _call(st, "multiply_diagonal", x, vals[1], a["axis"])
    # ---- arithmetic
    if op == "add":
        return x + vals[1]
    if op == "sub":
        return x - vals[1]
    if op == "mul":
        return x * vals[1]
    if op == "div":
        return x / vals[1]
    if op == "pow":
        return x ** vals[1]
    if op == "mul_s":
        return x * untuple(a["s"])
    if op == "rmul_s":
        return untuple(a["s"]) * x
    if op == "div_s":
        return x / untuple(a["s"])
    if op == "add_s":
        return x + untuple(a["s"])
    if op == "sub_s":
        return x - untuple(a["s"])
    if op == "rsub_s":
        return untuple(a["s"]) - x
    if op == "radd_s":
        return untuple(a["s"]) + x
    if op == "rdiv_s":
        return untuple(a["s"]) / x
    if op == "rpow_s":
        return untuple(a["s"]) ** x
    if op == "pow_s":
        return x ** untuple(a["s"])
    if op == "neg":
        return -x
    if op == "iadd":
        x += vals[1]
        return x
    if op == "isub":
        x -= vals[1]
        return x
    if op == "imul":
        x *= vals[1]
        return x
    if op == "idiv":
        x /= vals[1]
        return x
    if op == "ipow":
        x **= vals[1]
        return x
    if op == "imul_s":
        x *= untuple(a["s"])
        return x
    if op == "idiv_s":
        x /= untuple(a["s"])
        return x
    if op == "iadd_s":
        x += untuple(a["s"])
        return x
    if op == "isub_s":
        x -= untuple(a["s"])
        return x
    if op == "ipow_s":
        x **= untuple(a["s"])
        return x
    # ---- unary / reductions
    if op in ("abs", "sqrt", "isfinite"):
        return _call(st, op, x)
    if op == "clip":
        return _call(st, "clip", x, a["lo"], a["hi"])
    if op in ("sum", "max", "min", "all", "any"):
        return _call(st, op, x)
    if op == "norm":
        if st == "func":
            return sr.linalg.norm(x)
        return x.norm()
    if op == "item":
        return x.item()
    if op == "convert":
        return {"float": float, "complex": complex, "int": int, "bool": bool}[a["to"]](x)
    if op == "tensordot_s":
        s_ = untuple(a["s"])
        if a.get("np"):
            s_ = np.asarray(s_)
        if a.get("rev"):
            return sr.tensordot(s_, x)
        return sr.tensordot(x, s_)
    if op == "get_params":
        return tuple(np.asarray(b) for b in x.get_params().values()) or None
    if op == "set_params":
        x.set_params({s_: b * a["f"] for s_, b in x.get_params().items()})
        return x
    if op == "apply_to_arrays":
        f = a["f"]
        x.apply_to_arrays(lambda b: b * f)
        return x
    if op == "to_dense":
        return x.to_dense()
    if op == "allclose":
        if "rtol" in a:
            return bool(x.allclose(vals[1], rtol=a["rtol"], atol=a.get("atol", 1e-8)))
        return bool(x.allclose(vals[1]))
    # ---- linalg
    if op == "qr":
        if st == "direct" and a.get("stabilized"):
            q, _, r = sr.linalg.qr_stabilized(x)
            return q, r
        if st == "do":
            if a.get("stabilized"):
                q, _, r = ar.do("qr_stabilized", x)
                return q, r
            return tuple(ar.do("linalg.qr", x))
        return tuple(sr.linalg.qr(x, stabilized=bool(a.get("stabilized"))))
    if op == "svd":
        if st == "do":
            return tuple(ar.do("linalg.svd", x))
        return tuple(sr.linalg.svd(x))
    if op == "svd_truncated":
        kw = {k: a[k] for k in ("cutoff", "cutoff_mode", "max_bond") if k in a}
        if "absorb" in a:
            kw["absorb"] = a["absorb"]
        if st == "do":
            return tuple(ar.do("svd_truncated", x, **kw))
        return tuple(sr.linalg.svd_truncated(x, **kw))
    if op == "eigh":
        if st == "do":
            return tuple(ar.do("linalg.eigh", x))
        return tuple(sr.linalg.eigh(x))
    if op == "solve":
        return sr.linalg.solve(x, vals[1])
    if op == "expm":
        # (dense kernel: core.expm_stub, registered for the numpy backend)
        if st == "do":
            return ar.do("linalg.expm", x)
        from symmray.scipy.linalg import expm as _sr_expm
        return _sr_expm(x)
    # ---- gauge-invariant observables of decompositions: reconstruction by
    # the library's own contraction + spectra (factors are not unique)
    if op == "qr_recon":
        q, r = sr.linalg.qr(x, stabilized=bool(a.get("stabilized")))
        return sr.tensordot(q, r, 1)
    if op == "svd_recon":
        u, sv, vh = sr.linalg.svd(x)
        rec = sr.tensordot(u.multiply_diagonal(sv, 1), vh, 1)
        return rec, _sorted_vec(sv)
    if op == "svdt_recon":
        kw = {k: a[k] for k in ("cutoff", "cutoff_mode", "max_bond") if k in a}
        kw["absorb"] = a.get("absorb")
        u, sv, vh = sr.linalg.svd_truncated(x, **kw)
        if sv is not None:
            rec = sr.tensordot(u.multiply_diagonal(sv, 1), vh, 1)
        else:
            rec = sr.tensordot(u, vh, 1)
            sv = None
        bond = tuple(sorted(u.indices[1].chargemap.items(), key=repr))
        return rec, (None if sv is None else _sorted_vec(sv)), np.array(
            [hash_free_bond(bond)], dtype="float64")
    if op == "eigh_recon":
        w, v = sr.linalg.eigh(x)
        rec = sr.tensordot(v.multiply_diagonal(w, 1), v.dagger(), 1)
        return rec, _sorted_vec(w)
    # ---- phase api
    if op == "phase_flip":
        return x.phase_flip(*a["axs"], **ip)
    if op == "phase_transpose":
        perm = None if a["perm"] is None else tuple(a["perm"])
        return x.phase_transpose(perm, **ip)
    if op == "phase_global":
        return x.phase_global(**ip)
    if op == "phase_sector":
        return x.phase_sector(untuple(a["sector"]), **ip)
    if op == "phase_sync":
        return x.phase_sync(**ip)
    if op == "del":
        return None
    raise HarnessError(f"unknown op {op}")


def _sorted_vec(v, use_abs=False):
    """BlockVector with each block sorted (an order-free spectrum)."""
    out = {}
    for c, b in v.blocks.items():
        b = np.asarray(b)
        if use_abs:
            b = np.abs(b)
        out[c] = np.sort(b)
    return sr.BlockVector(out)


def hash_free_bond(bond):
    """Total kept bond dimension (a scalar observable of truncation)."""
    return float(sum(d for _, d in bond))


def bind(step, heap, res):
    """Bind the result of a step to its output names."""
    if step["op"] == "del":
        for n in step["in"]:
            heap.pop(n, None)
        return
    outs = step.get("out", [])
    if not outs:
        return
    if len(outs) == 1:
        heap[outs[0]] = res
        return
    if not isinstance(res, tuple) or len(res) != len(outs):
        raise HarnessError(
            f"{step['op']} returned {type(res).__name__} for outputs {outs}"
        )
    for n, v in zip(outs, res):
        if v is None:
            heap.pop(n, None)
        else:
            heap[n] = v


def is_inplace(step):
    return bool(step.get("a", {}).get("inplace")) or step["op"] in INPLACE_OPS


INPLACE_OPS = {
    "iadd", "isub", "imul", "idiv", "ipow", "imul_s", "idiv_s", "iadd_s",
    "isub_s", "ipow_s", "fill_missing_blocks", "drop_missing_blocks",
    "set_params", "apply_to_arrays", "factors", "align_inplace",
}


def inplace_targets(step):
    """Names of the values an in-place step is asked to change."""
    if step["op"] == "align_inplace":
        return list(step["in"][:2])
    return list(step["in"][:1])

# in-place step -> its out-of-place twin (same args)
TWIN = {
    "iadd": "add", "isub": "sub", "imul": "mul", "idiv": "div", "ipow": "pow",
    "imul_s": "mul_s", "idiv_s": "div_s", "iadd_s": "add_s",
    "isub_s": "sub_s", "ipow_s": "pow_s",
}


def twin_of(step):
    """Out-of-place twin of an in-place step, or None if there is none."""
    op = step["op"]
    if op in TWIN:
        t = dict(step, op=TWIN[op])
        return t
    a = step.get("a", {})
    if a.get("inplace"):
        t = dict(step)
        t["a"] = {k: v for k, v in a.items() if k != "inplace"}
        return t
    return None


# ================================================================ generate


class Ctx:
    """Per-run generation context (all choices come from the given rng)."""

    def __init__(self, rng, kinds=("A", "F"), syms=("Z2", "U1", "Z2Z2", "U1U1"),
                 p_inplace=0.0, styles=True, sparsity=0.0, weights=None,
                 max_heap=12, one_sym=None, allow=None, deny=(), max_charges=3, max_size=3):
        self.rng = rng
        self.kinds = kinds
        self.syms = syms
        self.p_inplace = p_inplace
        self.styles = styles
        self.sparsity = sparsity
        self.labels = specs.LabelMaker(rng)
        self.n = 0
        self.max_heap = max_heap
        self.allow = allow
        self.deny = set(deny)
        self.weights = weights or {}
        self.max_charges = max_charges
        self.max_size = max_size

    def gen_index(self, sym, **kw):
        kw.setdefault("max_charges", self.max_charges)
        kw.setdefault("max_size", self.max_size)
        return specs.gen_index(self.rng, sym, **kw)

    def fresh(self):
        self.n += 1
        return f"v{self.n}"

    def style(self, *options):
        if not self.styles:
            return "method"
        return self.rng.choice(("method",) * 3 + options)

    def inplace(self):
        return self.rng.random() < self.p_inplace

    def new_spec(self, **kw):
        rng = self.rng
        kw.setdefault("kind", rng.choice(list(self.kinds)))
        kw.setdefault("sym", rng.choice(list(self.syms)))
        kw.setdefault("sparsity", self.sparsity)
        kw.setdefault("max_charges", self.max_charges)
        kw.setdefault("max_size", self.max_size)
        spec = specs.gen_spec(rng, labels=self.labels, syms=self.syms, **kw)
        if spec["kind"] == "F" and spec["sectors"] and rng.random() < getattr(self, "p_ctor_phases", 0.0):
            # a sign table handed to the public constructor: -1 on some stored
            # sectors and possibly on a valid sector that has no block
            secs = [untuple(t) for t in spec["sectors"]]
            ph = [t for t in secs if rng.random() < 0.4]
            allv = specs.valid_sectors(spec["sym"], spec["indices"], spec["charge"])
            absent = [t for t in allv if t not in secs]
            if absent and rng.random() < 0.4:
                ph.append(rng.choice(absent))
            spec["phases"] = jsonable(ph)
        return spec


def names_of(heap, kinds):
    return [n for n, v in heap.items() if kind_of(v) in kinds]


def _symname(x):
    return type(x.symmetry).__name__


def _static(x):
    return bool(type(x).static_symmetry)


def _dtype_of(x):
    try:
        return str(np.asarray(x.get_any_array()).dtype)
    except Exception:
        return "float64"


def _matching_partner_spec(ctx, x, axes_x, extra=None, lead=True):
    """Spec of a fresh array contractible with ``x`` over ``axes_x``: its
    (leading or scattered) indices are conjugates of x's chosen indices."""
    rng = ctx.rng
    sym = _symname(x)
    con = [specs.conj_index_spec(specs.index_spec_of(x.indices[i])) for i in axes_x]
    nextra = rng.choice([0, 1, 1, 2]) if extra is None else extra
    free = [ctx.gen_index(sym) for _ in range(nextra)]
    if lead:
        idx = con + free
        axes_b = list(range(len(con)))
    else:
        pos = list(range(len(con) + len(free)))
        rng.shuffle(pos)
        idx = [None] * len(pos)
        axes_b = []
        for k, ixs in enumerate(con):
            idx[pos[k]] = ixs
            axes_b.append(pos[k])
        for k, ixs in enumerate(free):
            idx[pos[len(con) + k]] = ixs
    spec = ctx.new_spec(
        kind=kind_of(x), sym=sym, indices=idx, static=_static(x),
        dtype=_dtype_of(x),
    )
    return spec, axes_b


def _match_pairs(x, y):
    """All (i, j) such that x.indices[i] can be contracted with y.indices[j]."""
    out = []
    for i, ix in enumerate(x.indices):
        for j, iy in enumerate(y.indices):
            if ix.dual != iy.dual and dict(ix.chargemap) == dict(iy.chargemap):
                if (ix.subinfo is None) == (iy.subinfo is None):
                    out.append((i, j))
    return out


def _scalar(rng, cplx=False):
    s = rng.choice([2.0, -1.5, 0.5, 3, -2])
    if cplx and rng.random() < 0.5:
        return {"__c": [float(s), 1.0]}
    return s


# Each generator returns a list of steps (possibly preceded by partner
# construction) or None if it does not apply to the current heap.


LOCAL_BUILDERS = {
    "fermi_hubbard_spinless_local_array": (("Z2", "U1"), 3),
    "fermi_hubbard_local_array": (("Z2", "U1", "Z2Z2", "U1U1"), 3),
    "fermi_number_operator_spinless_local_array": (("Z2", "U1"), 0),
    "fermi_number_operator_spinful_local_array": (("Z2", "U1", "Z2Z2", "U1U1"), 0),
    "fermi_spin_operator_local_array": (("Z2", "U1", "Z2Z2", "U1U1"), 0),
}


def g_new(ctx, heap):
    if ("F" in ctx.kinds and ctx.rng.random() < 0.04 and getattr(ctx, "constructors", True)
            and getattr(ctx, "local_builders", True)):
        fn = ctx.rng.choice(sorted(LOCAL_BUILDERS))
        syms, nargs = LOCAL_BUILDERS[fn]
        ok = [s for s in ctx.syms if s in syms]
        if ok and nargs == 3 and ctx.rng.random() < 0.5:
            # the same terms through the edge-wise Hamiltonian builders
            # (coordination numbers come from the lattice)
            edges = ctx.rng.choice([[[0, 1]], [[0, 1], [1, 2]], [[0, 1], [1, 2], [0, 2]],
                                    [[0, 1], [0, 2], [0, 3]]])
            hfn = {"fermi_hubbard_local_array": "ham_fermi_hubbard_from_edges",
                   "fermi_hubbard_spinless_local_array": "ham_fermi_hubbard_spinless_from_edges"}[fn]
            args = [ctx.rng.choice([1.0, 0.5, -2.0]) for _ in range(nargs)]
            return [{"op": "new_local", "in": [], "out": [ctx.fresh()],
                     "a": {"fn": hfn, "sym": ctx.rng.choice(ok), "args": args,
                           "as": ctx.rng.choice(["number", "number", "dict", "callable"]),
                           "edges": edges, "pick": ctx.rng.randrange(len(edges))}}]
        if ok:
            args = [ctx.rng.choice([1.0, 0.5, -2.0]) for _ in range(nargs)]
            return [{"op": "new_local", "in": [], "out": [ctx.fresh()],
                     "a": {"fn": fn, "sym": ctx.rng.choice(ok), "args": args}}]
    if ctx.rng.random() < 0.04 and getattr(ctx, "constructors", True):
        rng = ctx.rng
        syms = [x for x in ctx.syms if x != "Z4"]
        if syms:
            sym = rng.choice(syms)
            kind = rng.choice(list(ctx.kinds))
            g = GROUPS[sym]
            nd = rng.randint(1, 3)
            shape = []
            for _ in range(nd):
                r = rng.random()
                if r < 0.4:
                    shape.append(rng.randint(1, 4))
                else:
                    ix = ctx.gen_index(sym)
                    e = {"cm": ix["cm"]}
                    if r < 0.65:
                        e.update({"as": "index", "dual": ix["dual"]})
                    shape.append(e)
            duals = rng.choice([None, None, "equal", [bool(rng.random() < 0.5) for _ in range(nd)]])
            charge = g.zero if rng.random() < 0.6 else rng.choice(specs.CHARGE_POOL[sym])
            spec = {"via": "get_rand", "kind": kind, "sym": sym, "shape": shape, "duals": duals,
                    "charge": jsonable(charge), "seed": rng.randrange(2**31),
                    "subsizes": rng.choice([None, None, "equal", "maximal", "minimal"]),
                    "dtype": rng.choice(specs.DTYPES[:2])}
            if kind == "F":
                spec["oddpos"] = ctx.labels.next() if g.parity(untuple(charge)) else None
            return [{"op": "new", "in": [], "out": [ctx.fresh()], "a": {"spec": spec}}]
    if ctx.rng.random() < 0.03 and getattr(ctx, "constructors", True):
        # a rank-0 array (no indices), with the identity or with another total
        # charge (then it has no valid sector and must stay block-less)
        sym = ctx.rng.choice(list(ctx.syms))
        ch = GROUPS[sym].zero if ctx.rng.random() < 0.4 else ctx.rng.choice(specs.CHARGE_POOL[sym])
        spec = ctx.new_spec(sym=sym, indices=[], charge=ch, sparsity=0.0)
        spec["via"] = ctx.rng.choice(["init", "random", "from_fill_fn"])
        return [{"op": "new", "in": [], "out": [ctx.fresh()], "a": {"spec": spec}}]
    if ctx.rng.random() < 0.06:
        # a one-element array of rank 1-3 (scalar-like, but not 0-d)
        sym = ctx.rng.choice(list(ctx.syms))
        idx = [specs.gen_index(ctx.rng, sym, max_charges=1, max_size=1)
               for _ in range(ctx.rng.randint(1, 3))]
        spec = ctx.new_spec(sym=sym, indices=idx, sparsity=0.0)
        return [{"op": "new", "in": [], "out": [ctx.fresh()], "a": {"spec": spec}}]
    spec = ctx.new_spec()
    r = ctx.rng.random()
    if ctx.rng.random() < 0.015 and getattr(ctx, "nonfinite", False):
        spec["dist"] = "nan"   # one non-finite entry: legal data, LAPACK may refuse it
        return [{"op": "new", "in": [], "out": [ctx.fresh()], "a": {"spec": spec}}]
    if r < 0.4 and getattr(ctx, "constructors", True):
        spec["via"] = ctx.rng.choice(["random", "from_fill_fn", "from_blocks", "from_dense"])
    return [{"op": "new", "in": [], "out": [ctx.fresh()], "a": {"spec": spec}}]


def _is_bool(v):
    try:
        return np.asarray(v.get_any_array()).dtype.kind == "b"
    except Exception:  # noqa: BLE001
        return False


def _pick(ctx, heap, kinds="AF", pred=None, allow_bool=False):
    # boolean masks (results of isfinite) are not tensors one can sign-flip,
    # contract or decompose: they are only reduced or densified
    ns = [n for n in names_of(heap, kinds)
          if (pred is None or pred(heap[n])) and (allow_bool or not _is_bool(heap[n]))]
    if not ns:
        return None
    # a value that was just put into a rare state is strongly preferred for
    # the next couple of operations, so that the state meets many operations
    focus = getattr(ctx, "focus", None)
    if focus and focus[0] in ns and ctx.rng.random() < 0.8:
        return focus[0]
    # bias towards recent values (results of earlier steps)
    if ctx.rng.random() < 0.5:
        ns = ns[-4:]
    return ctx.rng.choice(ns)


def _out(ctx, n, a):
    """Output name: the operand itself for in-place, else a fresh name."""
    return [n] if a.get("inplace") else [ctx.fresh()]


def g_copy(ctx, heap):
    n = _pick(ctx, heap, "AFV")
    if n is None:
        return None
    a = {"cw": True} if ctx.rng.random() < 0.25 else {}
    return [{"op": "copy", "in": [n], "out": [ctx.fresh()], "a": a}]


def g_index_ops(ctx, heap):
    n = _pick(ctx, heap, "AF", allow_bool=True)
    if n is None:
        return None
    op = "index_ops" if ctx.rng.random() < 0.7 else "checks"
    a = {"k": ctx.rng.randrange(4)} if op == "index_ops" else {"aligned": ctx.rng.random() < 0.3}
    return [{"op": op, "in": [n], "out": [], "a": a}]


def g_factors(ctx, heap):
    """Decomposition factors placed on the heap (operand synchronised first)."""
    rng = ctx.rng
    which = rng.choice(["qr", "svd", "svd_truncated", "eigh"])
    steps = []
    if which == "eigh":
        st = g_eigh(ctx, heap)
        if not st:
            return None
        last = st[-1]
        steps = st[:-1]
        n = last["in"][0]
        a = {"which": "eigh"}
        outs = [ctx.fresh(), ctx.fresh()]
    else:
        n = _matrix(ctx, heap, steps)
        a = {"which": which}
        if which == "qr":
            a["stabilized"] = rng.random() < 0.5
            outs = [ctx.fresh(), ctx.fresh()]
        elif which == "svd":
            outs = [ctx.fresh(), ctx.fresh(), ctx.fresh()]
        else:
            if rng.random() < 0.5:
                a["cutoff"] = rng.choice([1e-10, 0.05, 0.3])
                a["cutoff_mode"] = rng.randint(1, 6)
            if rng.random() < 0.6:
                a["max_bond"] = rng.choice([1, 2, 3, 5])
            a["absorb"] = rng.choice([-1, 0, 1, None])
            outs = [ctx.fresh(), ctx.fresh(), ctx.fresh()]
    steps.append({"op": "factors", "in": [n], "out": outs, "a": a})
    return steps


def g_reparam(ctx, heap):
    n = _pick(ctx, heap, "AF", pred=lambda v: v.num_blocks > 0)
    if n is None:
        return None
    return [{"op": "reparam", "in": [n], "out": [ctx.fresh()],
             "a": {"f": ctx.rng.choice([2.0, -1.0, 0.5])}}]


def g_align_inplace(ctx, heap):
    """align two *copies* in place (both arguments are targets)."""
    pr = _pair(ctx, heap, min_axes=1)
    if pr is None:
        return None
    steps, na, nb, ax_a, ax_b = pr
    if not ax_a or na == nb:
        return None
    ca, cb = ctx.fresh(), ctx.fresh()
    steps.append({"op": "copy", "in": [na], "out": [ca], "a": {}})
    steps.append({"op": "copy", "in": [nb], "out": [cb], "a": {}})
    steps.append({"op": "align_inplace", "in": [ca, cb], "out": [ca, cb],
                  "a": {"axes": [ax_a, ax_b]}})
    return steps


def g_sparsity(ctx, heap):
    n = _pick(ctx, heap, "AF", pred=lambda v: v.num_blocks > 0 and v.ndim <= 4)
    if n is None:
        return None
    op = ctx.rng.choice(["get_sparsity", "filled_copy"])
    return [{"op": op, "in": [n], "out": [ctx.fresh()], "a": {}}]


def g_reassemble(ctx, heap):
    n = _pick(ctx, heap, "AF")
    if n is None:
        return None
    return [{"op": "reassemble", "in": [n], "out": [ctx.fresh()], "a": {}}]


def g_transpose(ctx, heap):
    n = _pick(ctx, heap)
    if n is None:
        return None
    x = heap[n]
    rng = ctx.rng
    perm = list(range(x.ndim))
    rng.shuffle(perm)
    a = {"perm": None if rng.random() < 0.2 else perm}
    if a["perm"] is not None and rng.random() < 0.3:
        a["form"] = rng.choice(["list", "np", "neg"])
    if kind_of(x) == "F" and rng.random() < 0.3:
        a["phase"] = rng.random() < 0.6
    if ctx.inplace():
        a["inplace"] = True
    else:
        a["style"] = ctx.style("func", "do", "T") if "phase" not in a else "method"
        if a["style"] == "T":
            a["perm"] = None
    return [{"op": "transpose", "in": [n], "out": _out(ctx, n, a), "a": a}]


def g_conj(ctx, heap):
    n = _pick(ctx, heap)
    if n is None:
        return None
    x = heap[n]
    rng = ctx.rng
    a = {}
    if kind_of(x) == "F" and rng.random() < 0.6:
        a["phase_permutation"] = rng.random() < 0.7
        a["phase_dual"] = rng.random() < 0.5
    if ctx.inplace():
        a["inplace"] = True
    a["style"] = ctx.style("func", "do")
    return [{"op": "conj", "in": [n], "out": _out(ctx, n, a), "a": a}]


def g_dagger(ctx, heap):
    n = _pick(ctx, heap)
    if n is None:
        return None
    x = heap[n]
    rng = ctx.rng
    a = {}
    if kind_of(x) == "F" and rng.random() < 0.5:
        a["phase_dual"] = rng.random() < 0.5
    if ctx.inplace():
        a["inplace"] = True
    elif not a:
        a["style"] = ctx.style("H")
    return [{"op": "dagger", "in": [n], "out": _out(ctx, n, a), "a": a}]


def rand_groups(rng, ndim, max_groups=3):
    axes = list(range(ndim))
    rng.shuffle(axes)
    ng = rng.randint(1, max_groups)
    groups = []
    for _ in range(ng):
        if not axes:
            break
        k = rng.choice([1, 2, 2, 2, 3])
        groups.append([axes.pop() for _ in range(min(k, len(axes)))])
    return groups


def g_fuse(ctx, heap):
    n = _pick(ctx, heap, pred=lambda v: v.ndim >= 1)
    if n is None:
        return None
    x = heap[n]
    rng = ctx.rng
    groups = rand_groups(rng, x.ndim)
    if rng.random() < 0.3:
        # contiguous, in-order group (what reshape and tensordot use)
        i = rng.randrange(x.ndim)
        j = rng.randint(i, min(x.ndim - 1, i + 2))
        groups = [list(range(i, j + 1))]
    a = {"groups": groups}
    if rng.random() < 0.2:
        a["as_list"] = True
    if rng.random() < 0.12:
        groups.insert(rng.randint(0, len(groups)), [])
        a["expand_empty"] = rng.random() < 0.7
    if kind_of(x) == "A" and rng.random() < 0.6:
        a["mode"] = rng.choice(["auto", "insert", "concat"])
    if ctx.inplace():
        a["inplace"] = True
    elif len(a) == 1 or (len(a) == 2 and "as_list" in a):
        a["style"] = ctx.style("func", "do")
    return [{"op": "fuse", "in": [n], "out": _out(ctx, n, a), "a": a}]


def _fused_axes(x):
    return [i for i, ix in enumerate(x.indices) if ix.subinfo is not None]


def g_unfuse(ctx, heap):
    n = _pick(ctx, heap, pred=lambda v: bool(_fused_axes(v)))
    if n is None:
        return None
    x = heap[n]
    a = {"axis": ctx.rng.choice(_fused_axes(x))}
    if ctx.rng.random() < 0.25:
        a["axis"] -= x.ndim   # the same axis, counted from the end
    if ctx.inplace():
        a["inplace"] = True
    return [{"op": "unfuse", "in": [n], "out": _out(ctx, n, a), "a": a}]


def g_unfuse_all(ctx, heap):
    n = _pick(ctx, heap, pred=lambda v: bool(_fused_axes(v)))
    if n is None:
        n = _pick(ctx, heap)
        if n is None or ctx.rng.random() < 0.7:
            return None
    a = {}
    if ctx.inplace():
        a["inplace"] = True
    return [{"op": "unfuse_all", "in": [n], "out": _out(ctx, n, a), "a": a}]


def reshape_targets(rng, x):
    shape = list(x.shape)
    nd = len(shape)
    choice = rng.random()
    fused = _fused_axes(x)
    if fused and choice < 0.35:
        # unfuse one or all fused axes back to their sub-sizes
        which = fused if rng.random() < 0.5 else [rng.choice(fused)]
        new = []
        for i, d in enumerate(shape):
            if i in which:
                new.extend(s.size_total for s in x.indices[i].subinfo.indices)
            else:
                new.append(d)
        return new
    if choice < 0.6 and nd >= 2:
        # merge adjacent axes
        cuts = sorted(rng.sample(range(1, nd), rng.randint(0, nd - 1)))
        new, prev = [], 0
        for c in cuts + [nd]:
            new.append(int(np.prod(shape[prev:c])))
            prev = c
        return new
    if choice < 0.7:
        return [d for d in shape if d != 1] or [1]
    if choice < 0.8:
        new = list(shape)
        new.insert(rng.randint(0, nd), 1)
        return new
    if choice < 0.9:
        return shape
    new = [int(np.prod(shape))] if nd else [1]
    if rng.random() < 0.5:
        new = [-1]
    return new


def g_reshape(ctx, heap):
    n = _pick(ctx, heap, pred=lambda v: v.ndim >= 1)
    if n is None:
        return None
    x = heap[n]
    rng = ctx.rng
    pool = getattr(ctx, "shape_pool", None)
    if pool is None:
        pool = ctx.shape_pool = []
    shape = None
    if rng.random() < 0.3:
        # a target used earlier in this run (by an array of the same size but
        # possibly different fused structure), or another value's shape
        cands = [s for s in pool if int(np.prod(s)) == x.size]
        cands += [list(v.shape) for v in heap.values()
                  if kind_of(v) in "AF" and v is not x and v.size == x.size]
        if cands:
            shape = rng.choice(cands)
    if shape is None:
        shape = reshape_targets(rng, x)
    a = {"shape": [int(d) for d in shape]}
    if -1 not in a["shape"]:
        for s in (a["shape"], [int(d) for d in x.shape]):
            if s not in pool and len(pool) < 40:
                pool.append(s)
    if ctx.inplace():
        a["inplace"] = True
    a["style"] = ctx.style("func", "do")
    if rng.random() < 0.2:
        a["form"] = "list"
    return [{"op": "reshape", "in": [n], "out": _out(ctx, n, a), "a": a}]


def g_squeeze(ctx, heap):
    n = _pick(ctx, heap, pred=lambda v: any(d == 1 for d in v.shape))
    if n is None:
        return None
    x = heap[n]
    rng = ctx.rng
    ones = [i for i, d in enumerate(x.shape) if d == 1]
    r = rng.random()
    if r < 0.4:
        ax = None
    elif r < 0.8:
        ax = rng.choice(ones)
    else:
        ax = rng.sample(ones, rng.randint(1, len(ones)))
    a = {"axis": ax}
    if isinstance(ax, list) and rng.random() < 0.4:
        a["form"] = rng.choice(["list", "np"])
    if ctx.inplace():
        a["inplace"] = True
    else:
        a["style"] = ctx.style("func", "do")
    return [{"op": "squeeze", "in": [n], "out": _out(ctx, n, a), "a": a}]


def g_expand_dims(ctx, heap):
    n = _pick(ctx, heap, pred=lambda v: v.ndim < MAX_RANK)
    if n is None:
        return None
    x = heap[n]
    rng = ctx.rng
    a = {"axis": rng.randint(-x.ndim - 1, x.ndim)}
    if rng.random() < 0.4:
        a["c"] = jsonable(rng.choice(specs.CHARGE_POOL[_symname(x)]))
    if rng.random() < 0.4:
        a["dual"] = rng.random() < 0.5
    if ctx.inplace():
        a["inplace"] = True
    elif len(a) == 1:
        a["style"] = ctx.style("func")
    return [{"op": "expand_dims", "in": [n], "out": _out(ctx, n, a), "a": a}]


def _pair(ctx, heap, kinds="AF", min_axes=0, max_axes=None, want_ndim=None):
    """Choose (steps_before, name_a, name_b, axes_a, axes_b) for a
    contraction-like op. Partner manufacture strategies are mixed."""
    rng = ctx.rng
    na = _pick(ctx, heap, kinds)
    if na is None:
        return None
    x = heap[na]
    r = rng.random()
    steps = []
    # (iii) an existing value that already matches
    if r < 0.3:
        cands = []
        for nb in names_of(heap, kind_of(x)):
            y = heap[nb]
            if _symname(y) != _symname(x):
                continue
            prs = _match_pairs(x, y)
            if nb == na:
                prs = [(i, j) for i, j in prs if i != j]
            if prs:
                cands.append((nb, prs))
        if cands:
            nb, prs = rng.choice(cands)
            rng.shuffle(prs)
            ax_a, ax_b = [], []
            for i, j in prs:
                if i in ax_a or j in ax_b:
                    continue
                if nb == na and (i in ax_b or j in ax_a):
                    continue
                ax_a.append(i)
                ax_b.append(j)
            k = rng.randint(max(min_axes, 0), len(ax_a))
            if max_axes is not None:
                k = min(k, max_axes)
            return steps, na, nb, ax_a[:k], ax_b[:k]
    # (ii) its own conj / dagger
    if r < 0.5 and x.ndim >= 1:
        nb = ctx.fresh()
        if rng.random() < 0.5:
            steps.append({"op": "conj", "in": [na], "out": [nb], "a": {}})
            pairs = [(i, i) for i in range(x.ndim)]
        else:
            steps.append({"op": "dagger", "in": [na], "out": [nb], "a": {}})
            pairs = [(i, x.ndim - 1 - i) for i in range(x.ndim)]
        rng.shuffle(pairs)
        k = rng.randint(max(min_axes, 1), x.ndim)
        if rng.random() < 0.4:
            k = x.ndim
        if max_axes is not None:
            k = min(k, max_axes)
        pairs = pairs[:k]
        return steps, na, nb, [p[0] for p in pairs], [p[1] for p in pairs]
    # (i) fresh partner
    kmax = x.ndim if max_axes is None else min(max_axes, x.ndim)
    k = rng.randint(min(min_axes, kmax), kmax)
    ax_a = rng.sample(range(x.ndim), k)
    extra = None
    if want_ndim is not None:
        extra = max(0, want_ndim - k)
    spec, ax_b = _matching_partner_spec(ctx, x, ax_a, extra=extra, lead=rng.random() < 0.5)
    nb = ctx.fresh()
    steps.append({"op": "new", "in": [], "out": [nb], "a": {"spec": spec}})
    if spec["indices"]:
        nb = _lazy_signs(ctx, nb, spec["kind"], steps)
    return steps, na, nb, ax_a, ax_b


MAX_RANK = 6
MAX_SIZE = 6000


def _result_ok(x, y, steps, ax_a):
    """Bound rank and dense size of a contraction result (outer products of
    results of outer products would otherwise grow without limit)."""
    if y is None:
        # partner is created by one of ``steps``
        for s in steps:
            if s["op"] == "new":
                shp = [sum(d for _, d in ix["cm"]) for ix in s["a"]["spec"]["indices"]]
                break
        else:
            shp = list(x.shape)  # conj / dagger of x
    else:
        shp = list(y.shape)
    nd = x.ndim + len(shp) - 2 * len(ax_a)
    con = 1
    for i in ax_a:
        con *= max(1, x.shape[i])
    size = (int(np.prod(x.shape, dtype=float)) // con) * (int(np.prod(shp, dtype=float)) // con)
    return nd <= MAX_RANK and size <= MAX_SIZE


def g_tensordot(ctx, heap):
    pr = _pair(ctx, heap)
    if pr is None:
        return None
    steps, na, nb, ax_a, ax_b = pr
    rng = ctx.rng
    x = heap[na]
    if not _result_ok(x, heap.get(nb), steps, ax_a):
        return None
    a = {"axes": [ax_a, ax_b]}
    nd_a = x.ndim
    # the integer form when it denotes the same contraction
    if ax_a == list(range(nd_a - len(ax_a), nd_a)) and ax_b == list(range(len(ax_b))):
        if rng.random() < 0.5:
            a["axes"] = len(ax_a)
    elif rng.random() < 0.2:
        # negative axes
        a["axes"] = [[i - nd_a for i in ax_a], ax_b]
    if rng.random() < 0.75:
        a["mode"] = rng.choice(["auto", "fused", "blockwise", None])
    if rng.random() < 0.25:
        a["preserve_array"] = True
    if not isinstance(a["axes"], int) and rng.random() < 0.2:
        a["form"] = rng.choice(["list", "np"])
    a["style"] = ctx.style("do")
    if rng.random() < 0.25:
        na, nb = nb, na
        if isinstance(a["axes"], list):
            a["axes"] = [a["axes"][1], a["axes"][0]]
            if any(i < 0 for i in a["axes"][1]):
                a["axes"][1] = [i % nd_a for i in a["axes"][1]]
        else:
            a["axes"] = [ax_b, ax_a]
    steps.append({"op": "tensordot", "in": [na, nb], "out": [ctx.fresh()], "a": a})
    return steps


def g_matmul(ctx, heap):
    rng = ctx.rng
    na = _pick(ctx, heap, pred=lambda v: 1 <= v.ndim <= 2)
    if na is None:
        return None
    x = heap[na]
    if rng.random() < 0.4:
        # the existing value as the *right* operand: a fresh left partner
        # whose last index is the conjugate of its first one
        spec, _ = _matching_partner_spec(ctx, x, [0], extra=rng.choice([0, 1]), lead=True)
        spec = dict(spec)
        spec["indices"] = list(reversed(spec["indices"]))
        spec = ctx.new_spec(kind=spec["kind"], sym=spec["sym"], indices=spec["indices"],
                            static=spec["static"], dtype=spec["dtype"])
        nl = ctx.fresh()
        steps = [{"op": "new", "in": [], "out": [nl], "a": {"spec": spec}}]
        nl = _lazy_signs(ctx, nl, spec["kind"], steps)
        steps.append({"op": "matmul", "in": [nl, na], "out": [ctx.fresh()], "a": {}})
        return steps
    ax_a = [x.ndim - 1]
    spec, ax_b = _matching_partner_spec(ctx, x, ax_a, extra=rng.choice([0, 1]), lead=True)
    nb = ctx.fresh()
    steps = [{"op": "new", "in": [], "out": [nb], "a": {"spec": spec}}]
    nb = _lazy_signs(ctx, nb, spec["kind"], steps)
    steps.append({"op": "matmul", "in": [na, nb], "out": [ctx.fresh()], "a": {}})
    return steps


def _square_spec(ctx, kind=None, charge_zero=True, sym=None):
    rng = ctx.rng
    kind = kind or rng.choice(list(ctx.kinds))
    sym = sym or rng.choice(list(ctx.syms))
    ix = ctx.gen_index(sym)
    idx = [ix, specs.conj_index_spec(ix)]
    kw = {}
    if charge_zero:
        kw["charge"] = GROUPS[sym].zero
    return ctx.new_spec(kind=kind, sym=sym, indices=idx, **kw)


def g_trace(ctx, heap):
    rng = ctx.rng
    n = _pick(ctx, heap, pred=lambda v: v.ndim == 2 and any(
        (i, j) == (0, 1) for i, j in _match_pairs(v, v)))
    steps = []
    if n is None or rng.random() < 0.3:
        n = ctx.fresh()
        steps.append({"op": "new", "in": [], "out": [n], "a": {
            "spec": _square_spec(ctx, charge_zero=rng.random() < 0.8)}})
    steps.append({"op": "trace", "in": [n], "out": [ctx.fresh()],
                  "a": {"style": ctx.style("func", "do")}})
    return steps


def g_einsum(ctx, heap):
    n = _pick(ctx, heap, pred=lambda v: 1 <= v.ndim <= 6)
    if n is None:
        return None
    x = heap[n]
    rng = ctx.rng
    prs = [(i, j) for i, j in _match_pairs(x, x) if i < j]
    rng.shuffle(prs)
    used, traced = set(), []
    for i, j in prs:
        if i in used or j in used:
            continue
        if rng.random() < 0.7:
            traced.append((i, j))
            used |= {i, j}
    lhs = [None] * x.ndim
    li = iter(LETTERS)
    for i, j in traced:
        c = next(li)
        lhs[i] = lhs[j] = c
    kept = []
    for i in range(x.ndim):
        if lhs[i] is None:
            lhs[i] = next(li)
            kept.append(lhs[i])
    rng.shuffle(kept)
    a = {"eq": "".join(lhs) + "->" + "".join(kept)}
    if not kept and rng.random() < 0.4:
        a["preserve_array"] = True
    else:
        a["style"] = ctx.style("func")
    return [{"op": "einsum", "in": [n], "out": [ctx.fresh()], "a": a}]


def g_multiply_diagonal(ctx, heap):
    n = _pick(ctx, heap, pred=lambda v: v.ndim >= 1)
    if n is None:
        return None
    x = heap[n]
    rng = ctx.rng
    ax = rng.randrange(x.ndim)
    cm = [[jsonable(c), int(d)] for c, d in x.indices[ax].chargemap.items()]
    if len(cm) > 1 and rng.random() < 0.35:
        cm = [p for p in cm if rng.random() < 0.6] or cm[:1]
    elif len(cm) > 1 and kind_of(x) == "F" and rng.random() < 0.5:
        # drop a charge that carries a pending sign: leaves a sign entry
        # without a block behind
        from .snap import raw_phases
        pend = sorted({sec[ax] for sec, p in raw_phases(x).items()
                       if p == -1 and sec in x.blocks}, key=repr)
        if pend:
            drop = jsonable(rng.choice(pend))
            cm = [p for p in cm if p[0] != drop] or cm
    dt = _dtype_of(x)
    vs = {"cm": cm, "seed": rng.randrange(2**31), "dtype": dt,
          "dist": rng.choice(["int", "normal"]), "positive": rng.random() < 0.5}
    nv = ctx.fresh()
    a = {"axis": ax if rng.random() < 0.8 else ax - x.ndim}
    if ctx.inplace():
        a["inplace"] = True
    else:
        a["style"] = ctx.style("func", "do")
    return [
        {"op": "newvec", "in": [], "out": [nv], "a": {"spec": vs}},
        {"op": "multiply_diagonal", "in": [n, nv], "out": _out(ctx, n, a), "a": a},
    ]


def g_align_axes(ctx, heap):
    pr = _pair(ctx, heap, min_axes=1)
    if pr is None:
        return None
    steps, na, nb, ax_a, ax_b = pr
    if not ax_a:
        return None
    steps.append({"op": "align_axes", "in": [na, nb],
                  "out": [ctx.fresh(), ctx.fresh()],
                  "a": {"axes": [ax_a, ax_b], "style": ctx.style("func", "do")}})
    return steps


def g_sync_charges(ctx, heap):
    n = _pick(ctx, heap)
    if n is None:
        return None
    a = {}
    if ctx.inplace():
        a["inplace"] = True
    return [{"op": "sync_charges", "in": [n], "out": _out(ctx, n, a), "a": a}]


def g_fill_drop(ctx, heap):
    if ctx.p_inplace <= 0:
        return None
    n = _pick(ctx, heap, pred=lambda v: v.num_blocks > 0 or v.ndim == 0)
    if n is None:
        return None
    op = ctx.rng.choice(["fill_missing_blocks", "drop_missing_blocks"])
    return [{"op": op, "in": [n], "out": [n], "a": {}}]


def _same_shape_partner(ctx, x, same_sectors):
    """Spec of a fresh array with x's indices and charge."""
    rng = ctx.rng
    idx = [specs.index_spec_of(ix) for ix in x.indices]
    spec = ctx.new_spec(kind=kind_of(x), sym=_symname(x), indices=idx,
                        charge=x.charge, static=_static(x), dtype=_dtype_of(x),
                        sparsity=0.0 if same_sectors else max(ctx.sparsity, 0.3))
    if same_sectors:
        spec["sectors"] = jsonable(list(x.blocks.keys()))
    if spec["kind"] == "F" and GROUPS[spec["sym"]].parity(untuple(spec["charge"])):
        # same label: adding tensors that live at the same position
        odd = getattr(x, "oddpos", ())
        if len(odd) == 1:
            spec["oddpos"] = jsonable(odd[0].label)
    return spec


def _some_vector(ctx, heap, steps):
    """Name of a BlockVector: one from the heap or a new one over the charge
    table of an index of some array (vectors are otherwise only produced by
    decompositions, so their arithmetic would hardly ever run)."""
    rng = ctx.rng
    vs_ = names_of(heap, "V")
    if vs_ and rng.random() < 0.6:
        return rng.choice(vs_)
    n = _pick(ctx, heap, "AF", pred=lambda v: v.ndim >= 1)
    if n is None:
        return None
    x = heap[n]
    ix = rng.choice(list(x.indices))
    cm = [[jsonable(c), int(d)] for c, d in ix.chargemap.items()]
    spec = {"cm": cm, "seed": rng.randrange(2**31), "dtype": _dtype_of(x),
            "dist": "int", "positive": rng.random() < 0.7}
    nv = ctx.fresh()
    steps.append({"op": "newvec", "in": [], "out": [nv], "a": {"spec": spec}})
    heap[nv] = specs.build_vector(spec)
    return nv


def g_arith2(ctx, heap):
    rng = ctx.rng
    steps = []
    n = None
    if rng.random() < 0.2:
        heap = dict(heap)
        n = _some_vector(ctx, heap, steps)
    if n is None:
        n = _pick(ctx, heap, "AFV")
    if n is None:
        return None
    x = heap[n]
    k = kind_of(x)
    if k == "V":
        op = rng.choice(["add", "sub", "mul", "div", "pow"])
        cm = [[jsonable(c), int(np.size(b))] for c, b in x.blocks.items()]
        if op in ("add", "mul") and len(cm) > 1 and rng.random() < 0.3:
            cm = cm[:-1]
        vs = {"cm": cm, "seed": rng.randrange(2**31), "dtype": _dtype_of(x),
              "dist": "int", "positive": True}
        nb = ctx.fresh()
        steps.append({"op": "newvec", "in": [], "out": [nb], "a": {"spec": vs}})
    else:
        op = rng.choice(["add", "add", "sub", "mul"])
        r = rng.random()
        if r < 0.2:
            nb = n  # aliasing is deliberate
        elif r < 0.4:
            nb = ctx.fresh()
            steps.append({"op": "copy", "in": [n], "out": [nb], "a": {}})
        else:
            nb = ctx.fresh()
            # (subtraction refuses operands with different sector sets, in
            # either form: mostly matching sectors, sometimes not)
            spec = _same_shape_partner(
                ctx, x, same_sectors=(rng.random() < (0.75 if op == "sub" else 0.5)))
            steps.append({"op": "new", "in": [], "out": [nb], "a": {"spec": spec}})
    if ctx.inplace():
        steps.append({"op": "i" + op, "in": [n, nb], "out": [n], "a": {}})
    else:
        steps.append({"op": op, "in": [n, nb], "out": [ctx.fresh()], "a": {}})
    return steps


def g_arith1(ctx, heap):
    rng = ctx.rng
    pre = []
    n = None
    if rng.random() < 0.2:
        heap = dict(heap)
        n = _some_vector(ctx, heap, pre)
    if n is None:
        n = _pick(ctx, heap, "AFV")
    if n is None:
        return None
    x = heap[n]
    k = kind_of(x)
    cplx = "complex" in _dtype_of(x)
    if k == "V":
        op = rng.choice(["mul_s", "div_s", "add_s", "sub_s", "rsub_s", "pow_s", "neg", "rmul_s",
                         "radd_s", "rdiv_s", "rpow_s"])
    else:
        op = rng.choice(["mul_s", "div_s", "neg", "rmul_s"])
    a = {}
    if op != "neg":
        a["s"] = 2 if op in ("pow_s", "rpow_s") else _scalar(rng, cplx)
    if ctx.inplace() and op in ("mul_s", "div_s", "add_s", "sub_s", "pow_s"):
        return pre + [{"op": "i" + op, "in": [n], "out": [n], "a": a}]
    return pre + [{"op": op, "in": [n], "out": [ctx.fresh()], "a": a}]


def g_unary(ctx, heap):
    rng = ctx.rng
    n = _pick(ctx, heap, "AFV", pred=lambda v: v.num_blocks > 0)
    if n is None:
        return None
    x = heap[n]
    cplx = "complex" in _dtype_of(x)
    ops = ["abs", "isfinite", "sum", "norm"]
    if not cplx:
        # (complex sqrt has a branch cut on which the sign of a zero imaginary
        # part decides the result: -(x) and (-x) differ there by IEEE rules
        # although they are equal numbers)
        ops += ["clip", "max", "min", "sqrt"]
    op = rng.choice(ops)
    a = {}
    if op == "clip":
        a["lo"], a["hi"] = rng.choice([(-0.5, 2.0), (0.25, 1.5), (-2.0, -0.25),
                                       # symmetric and degenerate intervals
                                       (-1.0, 1.0), (0.5, 0.5), (-0.75, -0.75)])
    if kind_of(x) != "V":
        a["style"] = ctx.style("func", "do") if op != "norm" else ctx.style("func")
    return [{"op": op, "in": [n], "out": [ctx.fresh()], "a": a}]


def _single_element(v):
    return v.num_blocks == 1 and all(d == 1 for d in v.shape) and all(
        int(np.size(b)) == 1 for b in v.blocks.values())


def g_item(ctx, heap):
    n = _pick(ctx, heap, "AF", pred=_single_element)
    if n is None:
        return None
    return [{"op": "item", "in": [n], "out": [ctx.fresh()], "a": {}}]


def g_boolreduce(ctx, heap):
    n = _pick(ctx, heap, "AFV", pred=lambda v: v.num_blocks > 0 and _is_bool(v), allow_bool=True)
    if n is None:
        return None
    return [{"op": ctx.rng.choice(["all", "any"]), "in": [n], "out": [ctx.fresh()],
             "a": {"style": ctx.style("func")}}]


def g_convert(ctx, heap):
    n = _pick(ctx, heap, "AF", pred=_single_element)
    if n is None:
        return None
    cplx = "complex" in _dtype_of(heap[n])
    to = ctx.rng.choice(["complex", "bool"] + ([] if cplx else ["float", "float"]))
    return [{"op": "convert", "in": [n], "out": [ctx.fresh()], "a": {"to": to}}]


def g_tdot_scalar(ctx, heap):
    n = _pick(ctx, heap, "AF")
    if n is None:
        return None
    return [{"op": "tensordot_s", "in": [n], "out": [ctx.fresh()],
             "a": {"s": _scalar(ctx.rng), "np": ctx.rng.random() < 0.5,
                   "rev": ctx.rng.random() < 0.3}}]


def g_div_arrays(ctx, heap):
    """x / y for arrays whose every axis has size one."""
    rng = ctx.rng
    n = _pick(ctx, heap, "AF", pred=lambda v: all(d == 1 for d in v.shape) and v.num_blocks == 1)
    if n is None:
        return None
    x = heap[n]
    nb = ctx.fresh()
    steps = [{"op": "new", "in": [], "out": [nb], "a": {"spec": _same_shape_partner(ctx, x, True)}}]
    nb = _lazy_signs(ctx, nb, kind_of(x), steps) if x.ndim else nb
    steps.append({"op": "div", "in": [n, nb], "out": [ctx.fresh()], "a": {}})
    return steps


def g_params(ctx, heap):
    rng = ctx.rng
    n = _pick(ctx, heap, "AFV", pred=lambda v: v.num_blocks > 0)
    if n is None:
        return None
    r = rng.random()
    if r < 0.4 or ctx.p_inplace <= 0:
        return [{"op": "get_params", "in": [n], "out": [], "a": {}}]
    op = "set_params" if r < 0.7 else "apply_to_arrays"
    return [{"op": op, "in": [n], "out": [n], "a": {"f": rng.choice([2.0, -1.0, 0.5])}}]


def g_repr(ctx, heap):
    n = _pick(ctx, heap, "AFV", allow_bool=True)
    if n is None:
        return None
    return [{"op": "repr", "in": [n], "out": [], "a": {}}]


def g_to_dense(ctx, heap):
    n = _pick(ctx, heap, "AFV", pred=lambda v: v.num_blocks > 0, allow_bool=True)
    if n is None:
        return None
    return [{"op": "to_dense", "in": [n], "out": [ctx.fresh()], "a": {}}]


def g_allclose(ctx, heap):
    n = _pick(ctx, heap, "AF")
    if n is None:
        return None
    x = heap[n]
    nb = ctx.fresh()
    steps = []
    if ctx.rng.random() < 0.5:
        steps.append({"op": "copy", "in": [n], "out": [nb], "a": {}})
    else:
        steps.append({"op": "new", "in": [], "out": [nb],
                      "a": {"spec": _same_shape_partner(ctx, x, False)}})
    aa = {"rtol": 1e-3, "atol": 1e-6} if ctx.rng.random() < 0.3 else {}
    steps.append({"op": "allclose", "in": [n, nb], "out": [ctx.fresh()], "a": aa})
    return steps


def _matrix(ctx, heap, steps, p_new=0.35, square=False):
    rng = ctx.rng
    n = _pick(ctx, heap, pred=lambda v: v.ndim == 2 and v.num_blocks > 0)
    if n is None or rng.random() < p_new or square:
        n = ctx.fresh()
        if square:
            spec = _square_spec(ctx)
        else:
            spec = ctx.new_spec(ndim=2)
        spec["dist"] = "normal"
        steps.append({"op": "new", "in": [], "out": [n], "a": {"spec": spec}})
    return n


def g_qr(ctx, heap):
    steps = []
    n = _matrix(ctx, heap, steps)
    a = {"stabilized": ctx.rng.random() < 0.5, "style": ctx.style("do", "direct")}
    steps.append({"op": "qr", "in": [n], "out": [ctx.fresh(), ctx.fresh()], "a": a})
    return steps


def g_svd(ctx, heap):
    steps = []
    n = _matrix(ctx, heap, steps)
    steps.append({"op": "svd", "in": [n],
                  "out": [ctx.fresh(), ctx.fresh(), ctx.fresh()],
                  "a": {"style": ctx.style("do")}})
    return steps


def g_svd_truncated(ctx, heap):
    rng = ctx.rng
    steps = []
    n = _matrix(ctx, heap, steps)
    a = {}
    r = rng.random()
    if r < 0.55:
        a["cutoff"] = rng.choice([1e-10, 0.05, 0.3, 0.8, 2.0])
        a["cutoff_mode"] = rng.randint(1, 6)
    if rng.random() < 0.6:
        a["max_bond"] = rng.choice([1, 2, 3, 5, 50])
    a["absorb"] = rng.choice([-1, 0, 1, None])
    a["style"] = ctx.style("do")
    steps.append({"op": "svd_truncated", "in": [n],
                  "out": [ctx.fresh(), ctx.fresh(), ctx.fresh()], "a": a})
    return steps


def _lazy_signs(ctx, name, kind, steps, hermitian=False):
    """Optionally give a (fermionic) value pending signs through a public,
    value-changing-but-structure-preserving operation; returns the new name."""
    rng = ctx.rng
    if kind != "F" or rng.random() < 0.35:
        return name
    new = ctx.fresh()
    r = rng.random()
    if r < 0.4:
        steps.append({"op": "phase_global", "in": [name], "out": [new], "a": {}})
    elif r < 0.8 or hermitian:
        steps.append({"op": "phase_flip", "in": [name], "out": [new], "a": {"axs": [0]}})
    else:
        steps.append({"op": "phase_transpose", "in": [name], "out": [new], "a": {"perm": None}})
    return new


def g_eigh(ctx, heap):
    steps = []
    n = _matrix(ctx, heap, steps, square=True)
    # hermitise through public arithmetic so that eigh is well defined
    m = ctx.fresh()
    d = ctx.fresh()
    steps.append({"op": "dagger", "in": [n], "out": [d], "a": {}})
    steps.append({"op": "add", "in": [n, d], "out": [m], "a": {}})
    kind = steps[0]["a"]["spec"]["kind"] if steps[0]["op"] == "new" else "F"
    m = _lazy_signs(ctx, m, kind, steps, hermitian=True)
    steps.append({"op": "eigh", "in": [m], "out": [ctx.fresh(), ctx.fresh()],
                  "a": {"style": ctx.style("do")}})
    return steps


def g_expm(ctx, heap):
    """Block-wise matrix exponential (symmray.scipy.linalg.expm) of a matrix
    with square blocks, optionally carrying pending signs."""
    steps = []
    n = _matrix(ctx, heap, steps, square=True)
    kind = steps[0]["a"]["spec"]["kind"] if steps[0]["op"] == "new" else "F"
    n = _lazy_signs(ctx, n, kind, steps)
    steps.append({"op": "expm", "in": [n], "out": [ctx.fresh()],
                  "a": {"style": ctx.style("do", "direct")}})
    return steps


def _recon(gen, newop, nout):
    def g(ctx, heap):
        steps = gen(ctx, heap)
        if not steps:
            return None
        last = steps[-1]
        last["op"] = newop
        last["a"].pop("style", None)
        last["out"] = last["out"][:nout] + [ctx.fresh() for _ in range(nout - len(last["out"]))]
        return steps
    return g


def g_solve(ctx, heap):
    """a x = b with a general block-square matrix: the column table of ``a``
    is the image of its row table under c -> s1*(Q - s0*c) (directions s0, s1
    and total charge Q are free), so ``a`` may have two equally directed
    indices, a non-zero charge and different row/column charge tables."""
    rng = ctx.rng
    steps = []
    kind = rng.choice(list(ctx.kinds))
    sym = rng.choice(list(ctx.syms))
    g = GROUPS[sym]
    ix = ctx.gen_index(sym)
    r = rng.random()
    if r < 0.5:
        ix1 = specs.conj_index_spec(ix)
        q = g.zero
    else:
        d1 = bool(rng.random() < 0.5)
        q = g.zero if rng.random() < 0.4 else untuple(rng.choice(specs.CHARGE_POOL[sym]))
        cm = {}
        for c, d in ix["cm"]:
            c = untuple(c)
            t = g.add(q, g.neg(g.signed(c, ix["dual"])))
            cm[g.signed(t, d1)] = d
        ix1 = {"cm": [[jsonable(c), d] for c, d in sorted(cm.items())], "dual": d1}
    idx = [ix, ix1]
    try:
        sa = ctx.new_spec(kind=kind, sym=sym, indices=idx, sparsity=0.0, charge=q)
    except Exception:  # noqa: BLE001
        return None
    if not sa["sectors"]:
        return None
    sa["dist"] = "normal" if rng.random() < 0.88 else "zero"   # zero: singular, numpy raises
    na = ctx.fresh()
    steps.append({"op": "new", "in": [], "out": [na], "a": {"spec": sa}})
    sb = ctx.new_spec(kind=kind, sym=sym, indices=[dict(ix)], static=sa["static"],
                      dtype=sa["dtype"], sparsity=0.0)
    nb = ctx.fresh()
    steps.append({"op": "new", "in": [], "out": [nb], "a": {"spec": sb}})
    na = _lazy_signs(ctx, na, kind, steps)
    nb = _lazy_signs(ctx, nb, kind, steps)
    steps.append({"op": "solve", "in": [na, nb], "out": [ctx.fresh()], "a": {}})
    return steps


def g_phase(ctx, heap):
    rng = ctx.rng
    n = _pick(ctx, heap, "F")
    if n is None:
        return None
    x = heap[n]
    op = rng.choice(["phase_flip", "phase_flip", "phase_transpose", "phase_global",
                     "phase_sector", "phase_sync"])
    a = {}
    if op == "phase_flip":
        if x.ndim == 0:
            return None
        a["axs"] = rng.sample(range(x.ndim), rng.randint(1, x.ndim))
    elif op == "phase_transpose":
        perm = list(range(x.ndim))
        rng.shuffle(perm)
        a["perm"] = None if rng.random() < 0.2 else perm
    elif op == "phase_sector":
        if not x.blocks:
            return None
        a["sector"] = jsonable(rng.choice(list(x.blocks.keys())))
        if rng.random() < 0.3:
            # a valid (charge-conserving) sector that has no block: its sign
            # entry is legal and must stay unobservable
            try:
                allv = specs.valid_sectors(
                    _symname(x), [specs.index_spec_of(ix) for ix in x.indices], x.charge)
                absent = [t for t in allv if t not in x.blocks]
                if absent:
                    a["sector"] = jsonable(rng.choice(absent))
            except Exception:  # noqa: BLE001
                pass
    if ctx.inplace():
        a["inplace"] = True
    return [{"op": op, "in": [n], "out": _out(ctx, n, a), "a": a}]


GENERATORS = {
    "new": (g_new, 3),
    "copy": (g_copy, 2),
    "reassemble": (g_reassemble, 1),
    "sparsity": (g_sparsity, 1),
    "index_ops": (g_index_ops, 1),
    "reparam": (g_reparam, 1),
    "align_inplace": (g_align_inplace, 1),
    "factors": (g_factors, 0),
    "transpose": (g_transpose, 5),
    "conj": (g_conj, 3),
    "dagger": (g_dagger, 3),
    "fuse": (g_fuse, 6),
    "unfuse": (g_unfuse, 4),
    "unfuse_all": (g_unfuse_all, 2),
    "reshape": (g_reshape, 4),
    "squeeze": (g_squeeze, 2),
    "expand_dims": (g_expand_dims, 3),
    "tensordot": (g_tensordot, 8),
    "matmul": (g_matmul, 2),
    "trace": (g_trace, 1),
    "einsum": (g_einsum, 3),
    "multiply_diagonal": (g_multiply_diagonal, 3),
    "align_axes": (g_align_axes, 2),
    "sync_charges": (g_sync_charges, 2),
    "fill_drop": (g_fill_drop, 1),
    "arith2": (g_arith2, 4),
    "arith1": (g_arith1, 3),
    "unary": (g_unary, 3),
    "item": (g_item, 1),
    "to_dense": (g_to_dense, 1),
    "boolreduce": (g_boolreduce, 1),
    "convert": (g_convert, 1),
    "tdot_scalar": (g_tdot_scalar, 1),
    "div_arrays": (g_div_arrays, 1),
    "params": (g_params, 1),
    "repr": (g_repr, 1),
    "allclose": (g_allclose, 1),
    "qr": (g_qr, 2),
    "svd": (g_svd, 2),
    "svd_truncated": (g_svd_truncated, 2),
    "eigh": (g_eigh, 1),
    "solve": (g_solve, 1),
    "expm": (g_expm, 1),
    "phase": (g_phase, 5),
    "qr_recon": (_recon(g_qr, "qr_recon", 1), 0),
    "svd_recon": (_recon(g_svd, "svd_recon", 2), 0),
    "svdt_recon": (_recon(g_svd_truncated, "svdt_recon", 3), 0),
    "eigh_recon": (_recon(g_eigh, "eigh_recon", 2), 0),
}


def swarm_weights(rng, base=None, p_off=0.25, keep=("new", "tensordot", "fuse")):
    """Per-run op-family weights: whole families switched off at random."""
    w = {}
    for k, (_, wt) in GENERATORS.items():
        if base is not None and k not in base:
            continue
        if wt == 0 and base is None:
            continue
        if k not in keep and rng.random() < p_off:
            continue
        w[k] = (wt or 1) * rng.choice([0.5, 1, 1, 2])
    return w


def g_stale(ctx, heap):
    """Put a fermionic value into the rarely reached state "a pending sign is
    recorded for a sector that has no block" (legal; must stay unobservable)
    and make it the focus of the following operations."""
    rng = ctx.rng
    n = _pick(ctx, heap, "F", pred=lambda v: v.ndim >= 1 and v.num_blocks >= 1)
    if n is None:
        return None
    x = heap[n]
    out = ctx.fresh()
    steps = None
    if rng.random() < 0.5:
        try:
            allv = specs.valid_sectors(
                _symname(x), [specs.index_spec_of(ix) for ix in x.indices], x.charge)
        except Exception:  # noqa: BLE001
            allv = []
        absent = [t for t in allv if t not in x.blocks]
        if absent:
            steps = [{"op": "phase_sector", "in": [n], "out": [out],
                      "a": {"sector": jsonable(rng.choice(absent))}}]
    if steps is None:
        # sign on every block, then delete the blocks of one charge
        ax = rng.randrange(x.ndim)
        cm = [[jsonable(c), int(d)] for c, d in x.indices[ax].chargemap.items()]
        if len(cm) < 2:
            return None
        cm.pop(rng.randrange(len(cm)))
        t = ctx.fresh()
        nv = ctx.fresh()
        vs = {"cm": cm, "seed": rng.randrange(2**31), "dtype": _dtype_of(x),
              "dist": "int", "positive": True}
        steps = [
            {"op": "phase_global", "in": [n], "out": [t], "a": {}},
            {"op": "newvec", "in": [], "out": [nv], "a": {"spec": vs}},
            {"op": "multiply_diagonal", "in": [t, nv], "out": [out], "a": {"axis": ax}},
        ]
    ctx.focus = [out, 3]
    return steps


GENERATORS["stale"] = (g_stale, 2)


def gen_steps(ctx, heap):
    """One generated macro-step: a list of concrete steps."""
    rng = ctx.rng
    focus = getattr(ctx, "focus", None)
    if focus:
        focus[1] -= 1
        if focus[1] < 0 or focus[0] not in heap:
            ctx.focus = None
    arrays = names_of(heap, "AFV")
    steps = []
    if len(arrays) > ctx.max_heap:
        victims = rng.sample(arrays, len(arrays) - ctx.max_heap + 2)
        steps.append({"op": "del", "in": victims, "out": [], "a": {}})
        heap = {k: v for k, v in heap.items() if k not in victims}
    if not names_of(heap, "AF"):
        return steps + g_new(ctx, heap)
    w = ctx.weights
    keys = [k for k in w if k not in ctx.deny]
    for _ in range(12):
        k = rng.choices(keys, weights=[w[q] for q in keys])[0]
        out = GENERATORS[k][0](ctx, heap)
        if out:
            return steps + out
    return steps + g_new(ctx, heap)
