"""Development tool (not a check): which functions of /repo/symmray do the
engines' generated programs ever enter? Runs N seeded runs of every engine of
every claimed property under sys.setprofile and lists the functions of the
library that were never called, so that blind spots of the operation
catalogue are visible.

    /venv/bin/python symsim/tool_reach.py [--runs 150] [--seed 0]
"""

import argparse
import ast
import os
import sys

sys.path.insert(0, os.path.dirname(os.path.dirname(os.path.abspath(__file__))))

from symsim import core  # noqa: E402
from symsim import runner  # noqa: E402


def all_functions():
    out = {}
    for root, _, files in os.walk(core.SYMMRAY_DIR):
        for f in files:
            if not f.endswith(".py"):
                continue
            p = os.path.join(root, f)
            tree = ast.parse(open(p).read())
            for node in ast.walk(tree):
                if isinstance(node, (ast.FunctionDef, ast.AsyncFunctionDef)):
                    out[(p[len(core.SYMMRAY_DIR):], node.name, node.lineno)] = 0
    return out


def main():
    ap = argparse.ArgumentParser()
    ap.add_argument("--runs", type=int, default=150)
    ap.add_argument("--seed", type=int, default=0)
    ap.add_argument("--props", default="C01,C04,C09,C14,C15")
    a = ap.parse_args()
    funcs = all_functions()
    seen = {}

    def prof(frame, event, arg):
        if event == "call":
            co = frame.f_code
            if co.co_filename.startswith(core.SYMMRAY_DIR):
                k = (co.co_filename[len(core.SYMMRAY_DIR):], co.co_name, co.co_firstlineno)
                seen[k] = seen.get(k, 0) + 1

    import threading
    for prop in a.props.split(","):
        engines, _ = runner.get_engines(prop)
        for eng in engines:
            for run in range(a.runs):
                sys.setprofile(prof)
                threading.setprofile(prof)
                try:
                    eng.generate(a.seed, run, "quick")
                except Exception as e:  # noqa: BLE001
                    print("!!", prop, eng.name, run, type(e).__name__, e)
                finally:
                    sys.setprofile(None)
                    threading.setprofile(None)
    # decorators shift co_firstlineno to the decorator line: match by name+file
    # with a line tolerance
    never = []
    for (f, name, line) in sorted(funcs):
        hit = any(sf == f and sn == name and abs(sl - line) <= 6 for (sf, sn, sl) in seen)
        if not hit:
            never.append((f, name, line))
    print(f"functions defined: {len(funcs)}, entered: {len(funcs) - len(never)}")
    for f, name, line in never:
        print(f"  never: {f}:{line} {name}")


if __name__ == "__main__":
    main()
