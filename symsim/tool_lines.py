"""Development tool (not a check): which *lines* of /repo/symmray do the
engines' generated programs never execute? Same idea as tool_reach.py at line
granularity (sys.monitoring LINE events, each location reported once).

    /venv/bin/python symsim/tool_lines.py [--runs 200] [--props C01,...] [--files abelian_core,...]
"""

import argparse
import os
import sys

sys.path.insert(0, os.path.dirname(os.path.dirname(os.path.abspath(__file__))))

from symsim import core  # noqa: E402
from symsim import runner  # noqa: E402


def executable_lines(path):
    """Lines that carry code, from the compiled module's code objects."""
    src = open(path).read()
    top = compile(src, path, "exec")
    out = {}
    stack = [(top, "")]
    while stack:
        co, qual = stack.pop()
        for _, _, ln in co.co_lines():
            if ln is not None:
                out.setdefault(ln, qual or "<module>")
        for c in co.co_consts:
            if hasattr(c, "co_code"):
                stack.append((c, (qual + "." if qual else "") + c.co_name))
    return out


def main():
    ap = argparse.ArgumentParser()
    ap.add_argument("--runs", type=int, default=200)
    ap.add_argument("--seed", type=int, default=0)
    ap.add_argument("--props", default="C01,C04,C09,C14,C15")
    ap.add_argument("--files", default="abelian_core,fermionic_core,block_core,linalg,symmetries,interface,utils,fermionic_local_operators,hamiltonians")
    a = ap.parse_args()
    seen = set()
    mon = sys.monitoring
    TOOL = 3
    mon.use_tool_id(TOOL, "symsim-lines")

    def on_line(code, line):
        if code.co_filename.startswith(core.SYMMRAY_DIR):
            seen.add((code.co_filename, line))
        return mon.DISABLE

    mon.register_callback(TOOL, mon.events.LINE, on_line)
    mon.set_events(TOOL, mon.events.LINE)
    for prop in a.props.split(","):
        engines, _ = runner.get_engines(prop)
        for eng in engines:
            if eng.name == "c15c":
                continue  # uses sys.monitoring itself
            for run in range(a.runs):
                try:
                    eng.generate(a.seed, run, "quick")
                except Exception as e:  # noqa: BLE001
                    print("!!", prop, eng.name, run, type(e).__name__, e)
    mon.set_events(TOOL, 0)
    mon.free_tool_id(TOOL)
    for f in a.files.split(","):
        path = os.path.join(core.SYMMRAY_DIR, f + ".py")
        ex = executable_lines(path)
        miss = sorted(ln for ln in ex if (path, ln) not in seen)
        print(f"== {f}.py: {len(ex) - len(miss)}/{len(ex)} executable lines entered")
        src = open(path).read().splitlines()
        last = None
        for ln in miss:
            q = ex[ln]
            if any(t in q for t in ("to_pyblock3", "to_yastn", "__repr__", "__str__")):
                continue
            if q != last:
                print(f"  -- {q}")
                last = q
            print(f"     {ln}: {src[ln - 1].strip()[:110]}")


if __name__ == "__main__":
    main()
