#!/venv/bin/python
"""Evaluate a seeded change (from an independent sub-agent) against the checks.

    symsim/seeded_eval.py <id> [--from <worktree>/_seed] [--tier quick|thorough] [--runs N] [--no-tests]

Confirms in a scratch copy of /repo (under /dev/shm, removed afterwards) that
the patch applies, the baseline tests still pass with it, the demonstration
fails with it and passes without it; then runs the property's check against
the patched copy and records everything in seeded/<id>/meta.json["verif"].
"""
import json
import os
import shutil
import subprocess
import sys
import tempfile
import time

VERIF = os.path.dirname(os.path.dirname(os.path.abspath(__file__)))


def sh(cmd, cwd=None, env=None, timeout=3600):
    p = subprocess.run(cmd, cwd=cwd, env=env, capture_output=True, text=True, timeout=timeout)
    return p.returncode, p.stdout + p.stderr


def main(argv):
    sid = argv[0]
    src = None
    tier = "quick"
    runs = None
    tests = True
    prop_override = None
    it = iter(argv[1:])
    for a in it:
        if a == "--from":
            src = next(it)
        elif a == "--tier":
            tier = next(it)
        elif a == "--runs":
            runs = next(it)
        elif a == "--no-tests":
            tests = False
        elif a == "--prop":
            prop_override = next(it)
    dest = os.path.join(VERIF, "seeded", sid)
    if src:
        os.makedirs(dest, exist_ok=True)
        for f in ("patch.diff", "demo.py", "meta.json"):
            shutil.copy(os.path.join(src, f), os.path.join(dest, f))
    meta = json.load(open(os.path.join(dest, "meta.json")))
    prop = prop_override or meta["property"]
    patch = os.path.join(dest, "patch.diff")
    d = tempfile.mkdtemp(prefix="symsim-seed-", dir="/dev/shm")
    clean = tempfile.mkdtemp(prefix="symsim-clean-", dir="/dev/shm")
    rec = meta.setdefault("verif", {})
    try:
        for t in (d, clean):
            subprocess.run(["rsync", "-a", "--exclude", ".git", "--exclude", "_seed", "/repo/", t + "/"], check=True)
        rc, out = sh(["patch", "-p1", "-s", "-d", d, "-i", patch])
        rec["patch_applies"] = rc == 0
        if rc:
            print("PATCH FAILED", out)
            return 2
        env = dict(os.environ, PYTHONPATH=d, PYTHONDONTWRITEBYTECODE="1", OPENBLAS_NUM_THREADS="1")
        if tests:
            rc, out = sh(["/venv/bin/python", "-m", "pytest", "-q", "-p", "no:cacheprovider", "tests"], cwd=d, env=env)
            rec["baseline_tests_with_patch"] = out.strip().splitlines()[-1]
            print("tests with patch:", rec["baseline_tests_with_patch"])
        # demonstrations may locate the library relative to themselves
        for t in (d, clean):
            os.makedirs(os.path.join(t, "_seed"), exist_ok=True)
            shutil.copy(os.path.join(dest, "demo.py"), os.path.join(t, "_seed", "demo.py"))
        rc1, out1 = sh(["/venv/bin/python", os.path.join(d, "_seed", "demo.py")], cwd=d, env=env, timeout=600)
        envc = dict(env, PYTHONPATH=clean)
        rc0, out0 = sh(["/venv/bin/python", os.path.join(clean, "_seed", "demo.py")], cwd=clean, env=envc, timeout=600)
        rec["demo_with_patch_exit"] = rc1
        rec["demo_without_patch_exit"] = rc0
        print(f"demo: with patch exit {rc1}, without exit {rc0}")
        envk = dict(os.environ, SYMSIM_REPO=d)
        cmd = [os.path.join(VERIF, "check"), prop, tier]
        if runs:
            cmd += ["--runs", runs]
        t0 = time.time()
        rc, out = sh(cmd, cwd=VERIF, env=envk, timeout=7200)
        dt = time.time() - t0
        lines = [ln for ln in out.splitlines() if ln.startswith(("VIOLATION", "  oracle", "HARNESS", "[")) ]
        rec.setdefault("checks", []).append({
            "cmd": " ".join(cmd[len(VERIF) + 1:] if False else [os.path.basename(cmd[0])] + cmd[1:]),
            "exit": rc, "wall_s": round(dt, 1), "summary": lines[:4],
        })
        status = {0: "MISSED", 1: "CAUGHT", 2: "HARNESS-ERROR"}.get(rc, f"exit{rc}")
        if prop == meta["property"]:
            rec["status"] = status if rec.get("status") != "CAUGHT" else "CAUGHT"
        else:
            rec.setdefault("other_properties", {})[prop] = status
        print(f"{status} {prop} {sid} ({tier}, {dt:.0f}s)")
        for ln in lines[:4]:
            print("   ", ln[:300])
        # keep the minimised replay next to the seeded change
        for ln in lines:
            if ln.startswith("VIOLATION") and "replay=" in ln:
                rp = ln.split("replay=")[1].strip()
                if os.path.exists(rp):
                    shutil.copy(rp, os.path.join(dest, "replay.json"))
                break
        json.dump(meta, open(os.path.join(dest, "meta.json"), "w"), indent=1)
        return 0 if rc == 1 else 1
    finally:
        shutil.rmtree(d, ignore_errors=True)
        shutil.rmtree(clean, ignore_errors=True)


if __name__ == "__main__":
    sys.exit(main(sys.argv[1:]))
