#!/venv/bin/python
"""Sensitivity self-test: apply each mutants/*.patch to a scratch copy of
/repo under /dev/shm, run the matching quick check against the copy
(SYMSIM_REPO), expect exit 1 with a reproducing replay; remove the copy.

    symsim/selftest_mutants.py [name-substring ...] [--runs N] [--tests]
"""
import glob
import os
import shutil
import subprocess
import sys
import tempfile
import time

VERIF = os.path.dirname(os.path.dirname(os.path.abspath(__file__)))


def run_one(patch, runs, with_tests=False, tier="quick"):
    name = os.path.basename(patch)[:-6]
    prop = open(patch).readline().split(":")[1].strip()
    d = tempfile.mkdtemp(prefix="symsim-mut-", dir="/dev/shm")
    try:
        subprocess.run(["rsync", "-a", "--exclude", ".git", "/repo/", d + "/"], check=True)
        p = subprocess.run(["patch", "-p1", "-s", "-d", d, "-i", patch], capture_output=True, text=True)
        if p.returncode:
            return name, prop, "PATCH-FAILED", p.stdout + p.stderr, 0
        tests = ""
        if with_tests:
            t = subprocess.run(
                ["/venv/bin/python", "-m", "pytest", "-q", "-x", "-p", "no:cacheprovider", "tests"],
                cwd=d, capture_output=True, text=True,
                env=dict(os.environ, PYTHONPATH=d, PYTHONDONTWRITEBYTECODE="1"))
            tests = " tests=" + ("pass" if t.returncode == 0 else "FAIL:" + t.stdout[-300:])
        env = dict(os.environ, SYMSIM_REPO=d)
        t0 = time.time()
        cmd = [os.path.join(VERIF, "check"), prop, tier]
        if runs:
            cmd += ["--runs", str(runs)]
        c = subprocess.run(cmd, capture_output=True, text=True, env=env, cwd=VERIF)
        dt = time.time() - t0
        viol = [ln for ln in c.stdout.splitlines() if ln.startswith("VIOLATION") or ln.startswith("  oracle")]
        status = {0: "MISSED", 1: "CAUGHT", 2: "HARNESS-ERROR"}.get(c.returncode, f"exit{c.returncode}")
        detail = " | ".join(viol[:2]) if viol else c.stdout[-600:]
        return name, prop, status + tests, detail, dt
    finally:
        shutil.rmtree(d, ignore_errors=True)


def main(argv):
    runs = None
    with_tests = False
    tier = "quick"
    pats = []
    it = iter(argv)
    for a in it:
        if a == "--runs":
            runs = int(next(it))
        elif a == "--tests":
            with_tests = True
        elif a == "--thorough":
            tier = "thorough"
        else:
            pats.append(a)
    patches = sorted(glob.glob(os.path.join(VERIF, "mutants", "*.patch")))
    if pats:
        patches = [p for p in patches if any(s in os.path.basename(p) for s in pats)]
    bad = 0
    for p in patches:
        name, prop, status, detail, dt = run_one(p, runs, with_tests, tier)
        print(f"{status:14s} {prop} {name:45s} {dt:5.1f}s  {detail[:260]}", flush=True)
        if not status.startswith("CAUGHT"):
            bad += 1
    # clean replays produced by mutant runs
    return 1 if bad else 0


if __name__ == "__main__":
    sys.exit(main(sys.argv[1:]))
