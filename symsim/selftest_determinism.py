#!/venv/bin/python
"""Determinism self-test: the event-log digest of every run must be a pure
function of (seed, run). Each run is executed twice in this process, and once
more in fresh interpreters under another PYTHONHASHSEED, in reverse order and
across several processes; generated programs are also re-executed (replay
path) and must give the same digest.

    symsim/selftest_determinism.py C15 [--runs 200] [--procs 8]
"""
import json
import os
import subprocess
import sys

sys.dont_write_bytecode = True
VERIF = os.path.dirname(os.path.dirname(os.path.abspath(__file__)))
sys.path.insert(0, VERIF)


def digests(prop, seed, runs, replay=False):
    from symsim import runner
    engines, _ = runner.get_engines(prop)
    out = {}
    for ei, eng in enumerate(engines):
        for run in runs:
            program, o = eng.generate(seed, run, "quick")
            d = o["digest"]
            if replay:
                o2 = eng.execute(json.loads(json.dumps(program)))
                o3 = eng.execute(json.loads(json.dumps(program)))
                d2 = o2["digest"]
                if o2["digest"] != o3["digest"]:
                    d2 = "replay-not-repeatable:" + o2["digest"] + ":" + o3["digest"]
                elif program["config"].get("policy") == "breakpoint":
                    # generation tries several breakpoint sites per program and
                    # records the last one: the replay is one of those tries,
                    # so only its own repeatability can be compared
                    d2 = d
                d = d + "/" + d2
            out[f"{eng.name}:{run}"] = d
    return out


def main(argv):
    prop = argv[0]
    n = 200
    procs = 8
    seed = 0
    if "--runs" in argv:
        n = int(argv[argv.index("--runs") + 1])
    if "--procs" in argv:
        procs = int(argv[argv.index("--procs") + 1])
    if "--seed" in argv:
        seed = int(argv[argv.index("--seed") + 1])
    if "--child" in argv:
        lo, hi = map(int, argv[argv.index("--child") + 1].split(":"))
        runs = list(range(lo, hi))
        if "--reverse" in argv:
            runs.reverse()
        print("DIGESTS " + json.dumps(digests(prop, seed, runs)))
        return 0
    # children first (fresh interpreters, other hash seed, reversed order)
    kids = []
    per = max(1, n // procs)
    for i, lo in enumerate(range(0, n, per)):
        env = dict(os.environ, PYTHONHASHSEED=str(1 + i), OPENBLAS_NUM_THREADS="1")
        cmd = [sys.executable, os.path.abspath(__file__), prop, "--seed", str(seed),
               "--child", f"{lo}:{min(n, lo + per)}"]
        if i % 2:
            cmd.append("--reverse")
        kids.append(subprocess.Popen(cmd, stdout=subprocess.PIPE, stderr=subprocess.PIPE, text=True, env=env))
    a = digests(prop, seed, range(n), replay=True)
    b = digests(prop, seed, range(n))
    bad = 0
    for k in a:
        d1, d2 = a[k].split("/")
        if d1 != d2:
            print("MISMATCH generate-vs-replay", k, d1, d2)
            bad += 1
        if d1 != b[k]:
            print("MISMATCH same-process rerun", k, d1, b[k])
            bad += 1
    for kproc in kids:
        so, se = kproc.communicate()
        line = [ln for ln in so.splitlines() if ln.startswith("DIGESTS ")]
        if not line:
            print("CHILD FAILED", se[-800:])
            bad += 1
            continue
        c = json.loads(line[0][8:])
        for k, d in c.items():
            if a[k].split("/")[0] != d:
                print("MISMATCH fresh-interpreter", k, a[k], d)
                bad += 1
    print(f"determinism {prop}: {len(a)} runs x (generate, replay, rerun, fresh interpreter): {bad} mismatches")
    return 1 if bad else 0


if __name__ == "__main__":
    sys.exit(main(sys.argv[1:]))
