#!/venv/bin/python
"""Replay a recorded (minimised) program in this interpreter.

    /venv/bin/python symsim/replay.py <file>

exit 1 and a VIOLATION line if the program still violates its property,
exit 0 if it runs clean, exit 2 on harness errors.
"""
import json
import os
import sys

sys.dont_write_bytecode = True
sys.path.insert(0, os.path.dirname(os.path.dirname(os.path.abspath(__file__))))


def main(path):
    from symsim import runner, core

    data = json.load(open(path))
    program = data["program"]
    prop = program["prop"]
    engines, _ = runner.get_engines(prop)
    eng = [e for e in engines if e.name == program["engine"]]
    if not eng:
        print(f"HARNESS-ERROR: no engine {program['engine']} for {prop}")
        return 2
    try:
        out = eng[0].execute(program)
    except core.HarnessError as e:
        print(f"HARNESS-ERROR: {e}")
        return 2
    print(f"replayed {len(program['steps'])} steps, digest={out['digest']}")
    for f in out["findings"]:
        print(f"KNOWN-FINDING: property={prop} oracle={f['oracle']} op={f['op']} when={f['when']} {f['what']}")
    v = out.violation
    if v:
        print(f"VIOLATION property={prop} replay={path}")
        print(f"  signature={v['oracle']}:{v['where']}")
        print(f"  detail={v['detail']}")
        return 1
    print("no violation")
    return 0


if __name__ == "__main__":
    sys.exit(main(sys.argv[1]))
