#!/venv/bin/python
"""Sensitivity survey (development tool, not a check): mechanical mutants of
the library, filtered by the repository's own test suite, then handed to the
simulation engines.

    symsim/tool_mutation_survey.py enumerate            -> survey/mutants.jsonl
    symsim/tool_mutation_survey.py tests   [--jobs 14]  -> survey/tests.jsonl
    symsim/tool_mutation_survey.py engines [--jobs 14] [--runs 500]
                                                        -> survey/engines.jsonl
    symsim/tool_mutation_survey.py report

A mutant is one AST-local edit (comparison/boolean/arithmetic operator swap,
negated condition, constant change, deleted statement) of one of the core
modules. "tests": the mutant is applied to a scratch copy of /repo under
/dev/shm and the baseline suite runs there with -x; mutants the suite kills
are of no interest (the brief asks for changes that pass the existing tests).
"engines": every survivor is run through every claimed property's engines
(small budget, stop at the first violation) against the mutated copy. What
survives both is listed for manual triage: equivalent / outside the claimed
properties / a gap of the generators.

Nothing here touches /repo; scratch copies are removed as soon as a mutant is
done.
"""

import ast
import json
import os
import shutil
import subprocess
import sys
import tempfile
import time
import concurrent.futures as cf

VERIF = os.path.dirname(os.path.dirname(os.path.abspath(__file__)))
REPO = "/repo"
OUT = os.path.join(VERIF, "survey")
FILES = ["symmray/abelian_core.py", "symmray/fermionic_core.py", "symmray/block_core.py",
         "symmray/linalg.py", "symmray/symmetries.py", "symmray/interface.py",
         "symmray/scipy/linalg.py"]
PROPS = os.environ.get("SURVEY_PROPS", "C01,C14,C09,C15,C04").split(",")

CMP = {ast.Eq: "!=", ast.NotEq: "==", ast.Lt: "<=", ast.LtE: "<", ast.Gt: ">=", ast.GtE: ">",
       ast.Is: "is not", ast.IsNot: "is", ast.In: "not in", ast.NotIn: "in"}
BIN = {ast.Add: "-", ast.Sub: "+", ast.Mult: "+", ast.FloorDiv: "*", ast.Mod: "//"}
CMP_TXT = {ast.Eq: "==", ast.NotEq: "!=", ast.Lt: "<", ast.LtE: "<=", ast.Gt: ">", ast.GtE: ">=",
           ast.Is: "is", ast.IsNot: "is not", ast.In: "in", ast.NotIn: "not in"}
BIN_TXT = {ast.Add: "+", ast.Sub: "-", ast.Mult: "*", ast.FloorDiv: "//", ast.Mod: "%"}


def _offsets(src):
    offs = [0]
    for ln in src.splitlines(keepends=True):
        offs.append(offs[-1] + len(ln.encode()))
    return offs


class Enum(ast.NodeVisitor):
    def __init__(self, src, fname):
        self.src = src
        self.b = src.encode()
        self.offs = _offsets(src)
        self.fname = fname
        self.out = []
        self.func = []
        self.skip_depth = 0

    def pos(self, node):
        return (self.offs[node.lineno - 1] + node.col_offset,
                self.offs[node.end_lineno - 1] + node.end_col_offset)

    def text(self, node):
        s, e = self.pos(node)
        return self.b[s:e].decode()

    def add(self, kind, s, e, new, line):
        self.out.append({"file": self.fname, "kind": kind, "start": s, "end": e,
                         "new": new, "line": line, "func": ".".join(self.func),
                         "old": self.b[s:e].decode()})

    # -- scopes
    def visit_FunctionDef(self, node):
        doc = ast.get_docstring(node)
        self.func.append(node.name)
        # foreign-format exporters and debug printers are outside every property
        if node.name.startswith("to_py") or node.name.startswith("to_ya") or node.name in (
                "__repr__", "__str__", "print_fuseinfo_cache_stats", "check", "check_with",
                "check_chargemaps_aligned"):
            self.func.pop()
            return
        for i, st in enumerate(node.body):
            if i == 0 and doc is not None:
                continue
            self.visit(st)
        self.func.pop()

    visit_AsyncFunctionDef = visit_FunctionDef

    def visit_ClassDef(self, node):
        self.func.append(node.name)
        self.generic_visit(node)
        self.func.pop()

    # -- mutation points
    def visit_Compare(self, node):
        if len(node.ops) == 1 and type(node.ops[0]) in CMP:
            l, r = node.left, node.comparators[0]
            s = self.pos(l)[1]
            e = self.pos(r)[0]
            mid = self.b[s:e].decode()
            old = CMP_TXT[type(node.ops[0])]
            if old in mid:
                new = mid.replace(old, CMP[type(node.ops[0])], 1)
                self.add("cmp", s, e, new, node.lineno)
        self.generic_visit(node)

    def visit_BoolOp(self, node):
        a, b = node.values[0], node.values[1]
        s = self.pos(a)[1]
        e = self.pos(b)[0]
        mid = self.b[s:e].decode()
        old = "and" if isinstance(node.op, ast.And) else "or"
        new = "or" if old == "and" else "and"
        if old in mid:
            self.add("bool", s, e, mid.replace(old, new, 1), node.lineno)
        self.generic_visit(node)

    def visit_UnaryOp(self, node):
        if isinstance(node.op, ast.Not):
            s, e = self.pos(node)
            self.add("not", s, e, "(" + self.text(node.operand) + ")", node.lineno)
        elif isinstance(node.op, ast.USub) and not isinstance(node.operand, ast.Constant):
            s, e = self.pos(node)
            self.add("neg", s, e, "(" + self.text(node.operand) + ")", node.lineno)
        self.generic_visit(node)

    def visit_BinOp(self, node):
        if type(node.op) in BIN and not isinstance(node.left, ast.Constant) or (
                type(node.op) in BIN and not isinstance(getattr(node.left, "value", None), str)):
            s = self.pos(node.left)[1]
            e = self.pos(node.right)[0]
            mid = self.b[s:e].decode()
            old = BIN_TXT[type(node.op)]
            if old in mid and not isinstance(getattr(node.left, "value", None), str):
                self.add("bin", s, e, mid.replace(old, BIN[type(node.op)], 1), node.lineno)
        self.generic_visit(node)

    def visit_Constant(self, node):
        v = node.value
        s, e = self.pos(node)
        if v is True:
            self.add("const", s, e, "False", node.lineno)
        elif v is False:
            self.add("const", s, e, "True", node.lineno)
        elif isinstance(v, int) and not isinstance(v, bool) and v in (0, 1, 2):
            self.add("const", s, e, str({0: 1, 1: 0, 2: 1}[v]), node.lineno)

    def visit_If(self, node):
        s, e = self.pos(node.test)
        if not isinstance(node.test, ast.UnaryOp):
            self.add("ifneg", s, e, "not (" + self.text(node.test) + ")", node.lineno)
        self.generic_visit(node)

    def visit_IfExp(self, node):
        s, e = self.pos(node.test)
        self.add("ifneg", s, e, "not (" + self.text(node.test) + ")", node.lineno)
        self.generic_visit(node)

    def _del(self, node):
        s, e = self.pos(node)
        self.add("del", s, e, "pass", node.lineno)

    def visit_Expr(self, node):
        if isinstance(node.value, ast.Call):
            self._del(node)
        self.generic_visit(node)

    def visit_AugAssign(self, node):
        self._del(node)
        self.generic_visit(node)

    def visit_Delete(self, node):
        self._del(node)

    def visit_Assign(self, node):
        # attribute / subscript stores only (deleting a local binding just
        # raises NameError and is killed by anything)
        if all(isinstance(t, (ast.Attribute, ast.Subscript)) for t in node.targets):
            self._del(node)
        self.generic_visit(node)

    def visit_Continue(self, node):
        self._del(node)

    def visit_Break(self, node):
        self._del(node)

    def visit_Raise(self, node):
        return  # error paths: messages and types are outside the properties

    def visit_Assert(self, node):
        return


def enumerate_mutants():
    os.makedirs(OUT, exist_ok=True)
    allm = []
    for f in FILES:
        src = open(os.path.join(REPO, f)).read()
        en = Enum(src, f)
        en.visit(ast.parse(src))
        allm.extend(en.out)
    # valid python only
    ok = []
    for i, m in enumerate(allm):
        src = open(os.path.join(REPO, m["file"])).read().encode()
        new = src[:m["start"]] + m["new"].encode() + src[m["end"]:]
        try:
            ast.parse(new.decode())
        except SyntaxError:
            continue
        m["id"] = len(ok)
        ok.append(m)
    with open(os.path.join(OUT, "mutants.jsonl"), "w") as fh:
        for m in ok:
            fh.write(json.dumps(m) + "\n")
    print(f"{len(ok)} mutants")


def _scratch(m):
    d = tempfile.mkdtemp(prefix="symsim-mut-", dir="/dev/shm")
    shutil.copytree(os.path.join(REPO, "symmray"), os.path.join(d, "symmray"))
    p = os.path.join(d, m["file"])
    src = open(p, "rb").read()
    s0, e0 = m["start"], m["end"]
    oldb = m["old"].encode()
    if src[s0:e0] != oldb:
        # /repo moved on since the enumeration (a fix: commit): re-locate the
        # mutation point as the occurrence of the old text closest to where it was
        best = None
        k = src.find(oldb)
        while k != -1:
            if best is None or abs(k - s0) < abs(best - s0):
                best = k
            k = src.find(oldb, k + 1)
        if best is None or abs(best - s0) > 4000:
            shutil.rmtree(d, ignore_errors=True)
            raise RuntimeError(f"mutant {m['id']} no longer applies")
        s0, e0 = best, best + len(oldb)
    open(p, "wb").write(src[:s0] + m["new"].encode() + src[e0:])
    return d


def _env(d):
    return dict(os.environ, PYTHONPATH=d, PYTHONDONTWRITEBYTECODE="1", OPENBLAS_NUM_THREADS="1",
                OMP_NUM_THREADS="1", MKL_NUM_THREADS="1", PYTHONHASHSEED="0")


def run_tests(m):
    d = _scratch(m)
    try:
        shutil.copytree(os.path.join(REPO, "tests"), os.path.join(d, "tests"))
        for f in ("pyproject.toml", "conftest.py"):
            if os.path.exists(os.path.join(REPO, f)):
                shutil.copy(os.path.join(REPO, f), os.path.join(d, f))
        t0 = time.time()
        try:
            p = subprocess.run(["/venv/bin/python", "-m", "pytest", "-x", "-q", "-p", "no:cacheprovider",
                                "--timeout=120", "tests"], cwd=d, env=_env(d), capture_output=True,
                               text=True, timeout=900)
            tail = (p.stdout.strip().splitlines() or [""])[-1]
            rc = p.returncode
        except subprocess.TimeoutExpired:
            rc, tail = 124, "timeout"
        return {"id": m["id"], "tests_exit": rc, "tail": tail[:200], "t": round(time.time() - t0, 1)}
    finally:
        shutil.rmtree(d, ignore_errors=True)


CHILD = r'''
import sys, json, time
sys.path.insert(0, %(verif)r)
from symsim import core, runner
from symsim.core import HarnessError
prop, runs, cap = sys.argv[1], int(sys.argv[2]), float(sys.argv[3])
engines, _ = runner.get_engines(prop)
t0 = time.time()
res = {"prop": prop, "status": "quiet", "runs": 0}
done = False
for run in range(runs):
    for eng in engines:
        share = getattr(eng, "share", 1.0)
        if share < 1.0 and (run %% 20) >= int(round(share * 20)):
            continue
        try:
            program, out = eng.generate(0, run, "quick")
        except HarnessError as e:
            res.update(status="harness", detail=str(e)[:300], engine=eng.name, run=run)
            done = True
            break
        except BaseException as e:
            res.update(status="harness", detail=type(e).__name__ + ": " + str(e)[:300], engine=eng.name, run=run)
            done = True
            break
        res["runs"] += 1
        if out.violation:
            res.update(status="violation", engine=eng.name, run=run,
                       oracle=out.violation["oracle"], where=out.violation["where"],
                       detail=out.violation["detail"][:300])
            done = True
            break
    if done or time.time() - t0 > cap:
        break
res["t"] = round(time.time() - t0, 1)
print("RESULT " + json.dumps(res))
'''


def run_engines(m, runs, cap):
    try:
        d = _scratch(m)
    except RuntimeError as e:
        return {"id": m["id"], "props": {"-": {"prop": "-", "status": "stale", "detail": str(e)}}}
    rec = {"id": m["id"], "props": {}}
    try:
        for prop in PROPS:
            env = dict(_env(d), SYMSIM_REPO=d)
            env.pop("PYTHONPATH")
            try:
                p = subprocess.run(["/venv/bin/python", "-c", CHILD % {"verif": VERIF}, prop, str(runs), str(cap)],
                                   env=env, capture_output=True, text=True, timeout=cap * 4 + 120, cwd="/dev/shm")
                line = [ln for ln in p.stdout.splitlines() if ln.startswith("RESULT ")]
                if line:
                    r = json.loads(line[0][7:])
                else:
                    r = {"prop": prop, "status": "harness", "detail": (p.stderr or p.stdout)[-300:]}
            except subprocess.TimeoutExpired:
                r = {"prop": prop, "status": "hang"}
            rec["props"][prop] = r
            if r["status"] == "violation":
                break
        return rec
    finally:
        shutil.rmtree(d, ignore_errors=True)


def _load(name):
    p = os.path.join(OUT, name)
    if not os.path.exists(p):
        return []
    return [json.loads(ln) for ln in open(p) if ln.strip()]


def _pool(fn, items, jobs, outname, extra=()):
    done = {r["id"] for r in _load(outname)}
    todo = [m for m in items if m["id"] not in done]
    print(f"{len(todo)} to do ({len(done)} already done)")
    t0 = time.time()
    with open(os.path.join(OUT, outname), "a") as fh, cf.ThreadPoolExecutor(jobs) as pool:
        futs = [pool.submit(fn, m, *extra) for m in todo]
        for i, f in enumerate(cf.as_completed(futs)):
            r = f.result()
            fh.write(json.dumps(r) + "\n")
            fh.flush()
            if i % 50 == 0:
                print(f"  {i}/{len(todo)} {time.time() - t0:.0f}s", flush=True)


def main(argv):
    cmd = argv[0]
    jobs = int(argv[argv.index("--jobs") + 1]) if "--jobs" in argv else 14
    runs = int(argv[argv.index("--runs") + 1]) if "--runs" in argv else 500
    cap = float(argv[argv.index("--cap") + 1]) if "--cap" in argv else 25.0
    if cmd == "enumerate":
        enumerate_mutants()
    elif cmd == "tests":
        ms = _load("mutants.jsonl")
        if "--sample" in argv:
            import random
            k = int(argv[argv.index("--sample") + 1])
            ms = random.Random(1).sample(ms, min(k, len(ms)))
        _pool(run_tests, ms, jobs, "tests.jsonl")
    elif cmd == "engines":
        ms = {m["id"]: m for m in _load("mutants.jsonl")}
        surv = [ms[r["id"]] for r in _load("tests.jsonl") if r["tests_exit"] == 0]
        _pool(run_engines, surv, jobs, "engines.jsonl", (runs, cap))
    elif cmd == "deeper":
        # second pass over what stayed quiet, with a larger budget
        ms = {m["id"]: m for m in _load("mutants.jsonl")}
        files = argv[argv.index("--files") + 1].split(",") if "--files" in argv else None
        quiet = []
        for r in _load("engines.jsonl"):
            sts = [v["status"] for v in r["props"].values()]
            if all(s == "quiet" for s in sts):
                m = ms[r["id"]]
                if files is None or any(f in m["file"] for f in files):
                    quiet.append(m)
        if "--ids" in argv:
            want = {int(x) for x in argv[argv.index("--ids") + 1].split(",")}
            quiet = [m for m in quiet if m["id"] in want]
        _pool(run_engines, quiet, jobs, "deeper.jsonl", (runs, cap))
    elif cmd == "one":
        # one mutant by id against the given properties (development aid).
        # NOTE: offsets refer to the source the enumeration saw; re-enumerate
        # after /repo changes.
        ms = {m["id"]: m for m in _load("mutants.jsonl")}
        for i in argv[1].split(","):
            m = ms[int(i)]
            r = run_engines(m, runs, cap)
            print(f"#{m['id']} {m['file']}:{m['line']} {m['func']} {m['old']!r} -> {m['new']!r}")
            for p_, v in r["props"].items():
                print("   ", p_, {k: v[k] for k in v if k != "prop"})
    elif cmd == "report":
        ms = {m["id"]: m for m in _load("mutants.jsonl")}
        ts = {r["id"]: r for r in _load("tests.jsonl")}
        es = {r["id"]: r for r in _load("engines.jsonl")}
        deeper = {r["id"]: r for r in _load("deeper.jsonl")}
        for i, r in deeper.items():
            if any(v["status"] == "violation" for v in r["props"].values()):
                es[i] = r
        surv = [i for i, r in ts.items() if r["tests_exit"] == 0]
        print(f"mutants {len(ms)}; suite run on {len(ts)}; survive the suite {len(surv)}; "
              f"engines run on {len(es)}")
        caught, harness, quiet, stale = [], [], [], []
        for i, r in es.items():
            if i in deeper and not any(v["status"] == "violation" for v in deeper[i]["props"].values()):
                # (the later record describes the tree as it is now)
                d_ = deeper[i]["props"]
                if any(v["status"] == "stale" or (v["status"] == "harness" and "symsim-mut-" in v.get("detail", ""))
                       for v in d_.values()):
                    stale.append(i)
                    continue
            sts = {p: v["status"] for p, v in r["props"].items()}
            if "violation" in sts.values():
                caught.append(i)
            elif any(s in ("harness", "hang") for s in sts.values()):
                harness.append(i)
            else:
                quiet.append(i)
        print(f"  no longer applicable after the fix: commits made meanwhile (mutation point moved or gone): {len(stale)}")
        print(f"  violation reported: {len(caught)} (of which only with the larger second-pass budget: "
              f"{sum(1 for i in caught if i in deeper)}); harness error/hang only: {len(harness)}; quiet: {len(quiet)}"
              f" (second pass run on {len(deeper)})")
        if "--quiet" in argv or "--all" in argv:
            for i in sorted(quiet, key=lambda i: (ms[i]["file"], ms[i]["line"])):
                m = ms[i]
                print(f"  QUIET #{i} {m['file']}:{m['line']} {m['func']} [{m['kind']}] "
                      f"{m['old']!r} -> {m['new']!r}")
        if "--harness" in argv or "--all" in argv:
            for i in sorted(harness):
                m = ms[i]
                d = [v.get("detail", "") for v in es[i]["props"].values() if v["status"] != "quiet"]
                print(f"  HARNESS #{i} {m['file']}:{m['line']} {m['func']} [{m['kind']}] "
                      f"{m['old']!r} -> {m['new']!r} :: {d[:1]}")
    return 0


if __name__ == "__main__":
    sys.exit(main(sys.argv[1:]))
