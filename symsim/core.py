"""Core of the simulator: repo import, seed tree, world reset, event log.

One integer (VERIF_SEED) decides everything: every random choice in a run is
drawn from ``Streams(seed, run_index).get(name)``; nothing here reads a clock
or OS entropy.
"""

import hashlib
import json
import os
import random
import sys

sys.dont_write_bytecode = True

REPO = os.environ.get("SYMSIM_REPO", "/repo")
VERIF = os.path.dirname(os.path.dirname(os.path.abspath(__file__)))

# make sure it is the working tree under REPO that gets imported, not a copy
if REPO not in sys.path[:1]:
    sys.path.insert(0, REPO)

import warnings  # noqa: E402

import numpy as np  # noqa: E402

warnings.filterwarnings("ignore")
np.seterr(all="ignore")
import autoray as ar  # noqa: E402
import symmray as sr  # noqa: E402

_srfile = os.path.realpath(sr.__file__)
if not _srfile.startswith(os.path.realpath(REPO) + os.sep):
    raise SystemExit(
        f"HARNESS-ERROR: symmray imported from {_srfile}, expected under {REPO}"
    )

SYMMRAY_DIR = os.path.dirname(_srfile) + os.sep

from symmray import abelian_core as AC  # noqa: E402
from symmray import block_core as BC  # noqa: E402
from symmray import fermionic_core as FC  # noqa: E402
from symmray import linalg as LA  # noqa: E402
from symmray import symmetries as SY  # noqa: E402
import symmray.scipy.linalg  # noqa: E402,F401  (registers "linalg.expm")


def expm_stub(b):
    """Stand-in for the dense kernel ``scipy.linalg.expm`` (scipy is not
    installed in /venv): scaling and squaring of a Taylor series, pure numpy,
    deterministic. symmray's block-wise ``expm`` itself is the real code."""
    b = np.asarray(b)
    if b.ndim != 2 or b.shape[0] != b.shape[1]:
        raise ValueError("expected a square matrix")
    n = b.shape[0]
    if b.dtype.kind not in "fc":
        b = b.astype(np.float64)
    if n == 0:
        return b.copy()
    nrm = float(np.linalg.norm(b, 1))
    if not np.isfinite(nrm):
        return np.full_like(b, np.nan)
    s = max(0, int(np.ceil(np.log2(nrm))) + 1) if nrm > 0 else 0
    a = b / b.dtype.type(2 ** s)
    out = np.eye(n, dtype=b.dtype)
    term = np.eye(n, dtype=b.dtype)
    for k in range(1, 19):
        term = (term @ a) / b.dtype.type(k)
        out = out + term
    for _ in range(s):
        out = out @ out
    return out


ar.register_function("numpy", "scipy.linalg.expm", expm_stub)


class SimCrash(BaseException):
    """Injected crash. A direct BaseException subclass so that none of the
    library's ``except KeyError/AttributeError/...`` clauses can swallow it."""


class HarnessError(Exception):
    """The simulator itself is broken (never reported as a violation)."""


class Violation(Exception):
    def __init__(self, prop, oracle, where, detail=""):
        super().__init__(f"{prop}:{oracle}:{where}:{detail}")
        self.prop = prop
        self.oracle = oracle
        self.where = where
        self.detail = detail

    @property
    def signature(self):
        return (self.prop, self.oracle, self.where)


# ------------------------------------------------------------------ seeds


def derive(*parts):
    h = hashlib.sha256(repr(parts).encode()).digest()
    return int.from_bytes(h[:8], "big")


class Streams:
    """Named PRNG sub-streams of one run."""

    def __init__(self, seed, run):
        self.seed = seed
        self.run = run
        self._s = {}

    def get(self, name):
        r = self._s.get(name)
        if r is None:
            r = self._s[name] = random.Random(derive(self.seed, self.run, name))
        return r


# ------------------------------------------------------------ world reset

LRU_CACHES = {}


def _collect_lru():
    LRU_CACHES.clear()
    for mod in (AC, SY, LA, FC, BC):
        for k, v in sorted(vars(mod).items()):
            if hasattr(v, "cache_clear") and hasattr(v, "cache_info"):
                # only the ones defined in the library
                fn = getattr(v, "__wrapped__", None)
                code = getattr(fn, "__code__", None)
                if code is not None and code.co_filename.startswith(SYMMRAY_DIR):
                    LRU_CACHES[f"{mod.__name__.split('.')[-1]}.{k}"] = v


_collect_lru()

# Import-time ("cold") contents of every module-level container and simple
# global of the library, so that a world reset also covers memo tables or
# scratch buffers that a changed tree may add (not only the ones known today).
import collections as _collections  # noqa: E402
import types as _types  # noqa: E402

_PRISTINE = {}
_SIMPLE = (int, float, str, bool, type(None), tuple, frozenset)


def _shallow(c):
    """Shallow copy of a container that keeps its type (defaultdict, OrderedDict...)."""
    import copy as _copy
    return _copy.copy(c)


def _snapshot_globals():
    for mname, mod in sorted(sys.modules.items()):
        if not (mname == "symmray" or mname.startswith("symmray.")):
            continue
        f = getattr(mod, "__file__", None) or ""
        if not os.path.realpath(f).startswith(SYMMRAY_DIR):
            continue
        for k, v in list(vars(mod).items()):
            if k.startswith("__"):
                continue
            if isinstance(v, (dict, list, set)) and not isinstance(v, _types.ModuleType):
                _PRISTINE[(mname, k)] = ("container", v, type(v)(v) if not isinstance(
                    v, _collections.defaultdict) else dict(v))
            elif isinstance(v, _SIMPLE) and not k.isupper() or k in ("_DEFAULT_TENSORDOT_MODE",):
                if isinstance(v, _SIMPLE):
                    _PRISTINE[(mname, k)] = ("simple", None, v)
            # state hidden on classes and functions: class-level containers,
            # mutable default arguments, function attributes
            objs = []
            if isinstance(v, type) and getattr(v, "__module__", None) == mname:
                objs.append(v)
                for ck, cv in list(vars(v).items()):
                    if isinstance(cv, (dict, list, set)) and not ck.startswith("__"):
                        _PRISTINE[(mname, k, "cls", ck)] = ("attr-container", cv, _shallow(cv))
                    f = cv.__func__ if isinstance(cv, (staticmethod, classmethod)) else cv
                    if isinstance(f, property):
                        objs.extend(x for x in (f.fget, f.fset) if x is not None)
                    elif isinstance(f, _types.FunctionType):
                        objs.append(f)
            elif isinstance(v, _types.FunctionType) and v.__module__ == mname:
                objs.append(v)
            elif hasattr(v, "__wrapped__") and isinstance(getattr(v, "__wrapped__"), _types.FunctionType):
                objs.append(v.__wrapped__)
            for f in objs:
                if not isinstance(f, _types.FunctionType):
                    continue
                for i, d in enumerate(f.__defaults__ or ()):
                    if isinstance(d, (dict, list, set)):
                        _PRISTINE[(mname, k, f.__qualname__, "default", i)] = (
                            "attr-container", d, _shallow(d))
                for dk, d in (f.__kwdefaults__ or {}).items():
                    if isinstance(d, (dict, list, set)):
                        _PRISTINE[(mname, k, f.__qualname__, "kwdefault", dk)] = (
                            "attr-container", d, _shallow(d))
                # (every function, also those without attributes at import: an
                # attribute *added* later is history that must not survive)
                _PRISTINE[(mname, k, f.__qualname__, "fdict")] = ("fdict", f, dict(f.__dict__))
            # closures: containers captured in cells
            for f in objs:
                if isinstance(f, _types.FunctionType) and f.__closure__:
                    for ci, cell in enumerate(f.__closure__):
                        try:
                            cv = cell.cell_contents
                        except ValueError:
                            continue
                        if isinstance(cv, (dict, list, set)):
                            _PRISTINE[(mname, k, f.__qualname__, "cell", ci)] = (
                                "attr-container", cv, _shallow(cv))
        _MODULE_NAMES[mname] = set(vars(mod))
        for k, v in list(vars(mod).items()):
            if isinstance(v, type) and getattr(v, "__module__", None) == mname:
                _CLASS_NAMES[(mname, k)] = (v, set(vars(v)))


_MODULE_NAMES = {}
_CLASS_NAMES = {}
_snapshot_globals()


def _snapshot_process():
    """Process-wide state outside the library that a call could change and a
    later call could read."""
    import autoray.autoray as _ara
    st = {
        "np_err": np.geterr(),
        "np_print": np.get_printoptions(),
        "warn_filters": list(warnings.filters),
        "recursion": sys.getrecursionlimit(),
        "environ": dict(os.environ),
        "autoray": {},
    }
    for k, v in vars(_ara).items():
        if k.startswith("__"):
            continue
        if isinstance(v, dict):
            st["autoray"][k] = (v, {a: (dict(b) if isinstance(b, dict) else b) for a, b in v.items()})
    return st


_PROCESS = _snapshot_process()


def restore_process():
    np.seterr(**_PROCESS["np_err"])
    np.set_printoptions(**_PROCESS["np_print"])
    if warnings.filters != _PROCESS["warn_filters"]:
        warnings.filters[:] = _PROCESS["warn_filters"]
        getattr(warnings, "_filters_mutated", lambda: None)()
    for mname in _MODULE_NAMES:
        reg = getattr(sys.modules.get(mname), "__warningregistry__", None)
        if reg:
            reg.clear()
    if sys.getrecursionlimit() != _PROCESS["recursion"]:
        sys.setrecursionlimit(_PROCESS["recursion"])
    if dict(os.environ) != _PROCESS["environ"]:
        for k in list(os.environ):
            if k not in _PROCESS["environ"]:
                del os.environ[k]
        for k, v in _PROCESS["environ"].items():
            if os.environ.get(k) != v:
                os.environ[k] = v
    for k, (obj, val) in _PROCESS["autoray"].items():
        if obj.keys() != val.keys() or any(
                isinstance(val[a], dict) and obj[a] != val[a] for a in val):
            obj.clear()
            obj.update({a: (dict(b) if isinstance(b, dict) else b) for a, b in val.items()})


def restore_globals():
    for key, (kind, obj, val) in _PRISTINE.items():
        mname, k = key[0], key[1]
        mod = sys.modules.get(mname)
        if mod is None:
            continue
        if kind == "attr-container":
            if isinstance(obj, (dict, set)):
                obj.clear()
                obj.update(val)
            else:
                obj[:] = val
            continue
        if kind == "fdict":
            for a in list(obj.__dict__):
                if a not in val and a != "__wrapped__":
                    del obj.__dict__[a]
            continue
        if kind == "container":
            cur = getattr(mod, k, None)
            for o in ((obj,) if cur is obj else (obj, cur)):
                if isinstance(o, (dict, set)):
                    o.clear()
                    o.update(val)
                elif isinstance(o, list):
                    o[:] = val
        else:
            if getattr(mod, k, None) != val:
                setattr(mod, k, val)
    # module globals and class attributes that did not exist at import time
    for mname, names in _MODULE_NAMES.items():
        mod = sys.modules.get(mname)
        if mod is None:
            continue
        for k in [k for k in vars(mod) if k not in names and not k.startswith("__")]:
            if not isinstance(getattr(mod, k), _types.ModuleType):
                delattr(mod, k)
    for (mname, k), (cls, names) in _CLASS_NAMES.items():
        for a in [a for a in vars(cls) if a not in names and not a.startswith("__")]:
            try:
                delattr(cls, a)
            except (AttributeError, TypeError):
                pass
    restore_process()


DEFAULT_MAXSIZE = 8192

DEFAULT_MAXSECTORS = 512


def clear_lru(names=None):
    for k, v in LRU_CACHES.items():
        if names is None or k in names:
            v.cache_clear()


def set_cache_limits(maxsize, maxsectors):
    AC._fuseinfo_cache_maxsize = maxsize
    AC._fuseinfo_cache_maxsectors = maxsectors


class _CacheView:
    """Tolerant access to the library's fuse-cache globals: if a changed tree
    renames or removes them the simulator loses that seam (and says so in its
    counters) instead of crashing."""

    @property
    def _fuseinfos(self):
        d = getattr(AC, "_fuseinfos", None)
        if d is None:
            d = self.__dict__.setdefault("_dummy", _collections.OrderedDict())
        return d

    def __getattr__(self, k):
        if k in ("_fi_hit", "_fi_missed", "_fi_missed_too_long"):
            return getattr(AC, k, 0)
        if k in ("_fuseinfo_cache_maxsize", "_fuseinfo_cache_maxsectors"):
            return getattr(AC, k, 0)
        return getattr(AC, k)

    def __setattr__(self, k, v):
        setattr(AC, k, v)


CACHE = _CacheView()


def cache_counters():
    return (CACHE._fi_hit, CACHE._fi_missed, CACHE._fi_missed_too_long)


def world_reset(maxsize=DEFAULT_MAXSIZE, maxsectors=DEFAULT_MAXSECTORS, debug=False):
    """Put every piece of process-wide library state into a known state."""
    restore_globals()
    CACHE._fuseinfos.clear()
    clear_lru()
    for _k in ("_fi_hit", "_fi_missed", "_fi_missed_too_long"):
        if hasattr(AC, _k):
            setattr(AC, _k, 0)
    AC._DEFAULT_TENSORDOT_MODE = "auto"
    set_cache_limits(maxsize, maxsectors)
    # the library's own audit must neither mask nor pre-empt our oracles
    # (an engine may switch it on for a whole run as a configuration knob)
    AC.DEBUG = bool(debug)
    LA.DEBUG = bool(debug)
    sr.utils.DEBUG = bool(debug)


# ---------------------------------------------------------------- json


def jsonable(x):
    """Turn charges/sectors/numpy scalars into plain JSON values."""
    if isinstance(x, (np.integer,)):
        return int(x)
    if isinstance(x, (np.floating,)):
        return float(x)
    if isinstance(x, (np.bool_,)):
        return bool(x)
    if isinstance(x, complex):
        return {"__c": [x.real, x.imag]}
    if isinstance(x, (np.complexfloating,)):
        return {"__c": [float(x.real), float(x.imag)]}
    if isinstance(x, (tuple, list)):
        return [jsonable(i) for i in x]
    if isinstance(x, dict):
        return {str(k): jsonable(v) for k, v in x.items()}
    return x


def untuple(x):
    """Inverse for charges / sectors / perms: JSON lists -> tuples."""
    if isinstance(x, list):
        return tuple(untuple(i) for i in x)
    if isinstance(x, dict) and "__c" in x:
        return complex(*x["__c"])
    return x


def digest(obj):
    return hashlib.sha1(
        json.dumps(jsonable(obj), sort_keys=True, default=repr).encode()
    ).hexdigest()


class EventLog:
    """(step, kind, payload-digest) triples; the sha1 of the list is the
    identity of the run. Logging never touches a PRNG or a clock."""

    def __init__(self):
        self.h = hashlib.sha1()
        self.n = 0
        self.tail = []

    def add(self, kind, payload=None):
        line = f"{self.n}|{kind}|{digest(payload) if payload is not None else ''}"
        self.h.update(line.encode())
        self.n += 1
        if len(self.tail) < 40:
            self.tail.append((kind, jsonable(payload)))

    def hexdigest(self):
        return self.h.hexdigest()
