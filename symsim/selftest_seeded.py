#!/venv/bin/python
"""Re-evaluate every seeded change under seeded/ against the current checks."""
import glob
import os
import subprocess
import sys

VERIF = os.path.dirname(os.path.dirname(os.path.abspath(__file__)))
bad = 0
for d in sorted(glob.glob(os.path.join(VERIF, "seeded", "*"))):
    sid = os.path.basename(d)
    p = subprocess.run([sys.executable, os.path.join(VERIF, "symsim", "seeded_eval.py"), sid, "--no-tests"]
                       + sys.argv[1:], capture_output=True, text=True)
    line = [ln for ln in p.stdout.splitlines() if ln.startswith(("CAUGHT", "MISSED", "HARNESS", "exit"))]
    print(line[0] if line else f"?? {sid}: {p.stdout[-300:]}", flush=True)
    if not line or not line[0].startswith("CAUGHT"):
        bad += 1
sys.exit(1 if bad else 0)
