#!/venv/bin/python
"""Self-test of the independent observers: the group arithmetic is checked
exhaustively on small ranges; the auditor, the snapshots and the comparators
must notice hand-made corruptions of otherwise valid arrays and must stay
quiet on the arrays themselves."""
import itertools
import os
import random
import sys

sys.dont_write_bytecode = True
sys.path.insert(0, os.path.dirname(os.path.dirname(os.path.abspath(__file__))))

import numpy as np  # noqa: E402

from symsim import core, specs, snap as S  # noqa: E402
from symsim.audit import audit  # noqa: E402
from symsim.groups import GROUPS  # noqa: E402

fails = []


def check(cond, what):
    if not cond:
        fails.append(what)


# ---- groups: abelian group axioms + parity homomorphism on small ranges
POOLS = {
    "Z2": [0, 1], "Z4": [0, 1, 2, 3], "U1": list(range(-3, 4)),
    "Z2Z2": list(itertools.product([0, 1], repeat=2)),
    "U1U1": list(itertools.product(range(-2, 3), repeat=2)),
}
for name, g in GROUPS.items():
    pool = POOLS[name]
    z = g.zero
    for a in pool:
        check(g.member(a), f"{name} member {a}")
        check(g.add(a, z) == a, f"{name} identity {a}")
        check(g.add(a, g.neg(a)) == z, f"{name} inverse {a}")
        check(g.member(g.neg(a)), f"{name} neg member {a}")
    for a, b in itertools.product(pool, repeat=2):
        check(g.add(a, b) == g.add(b, a), f"{name} commutative")
        check(g.parity(g.add(a, b)) == (g.parity(a) + g.parity(b)) % 2, f"{name} parity")
    for a, b, c in itertools.product(pool[:4], repeat=3):
        check(g.add(g.add(a, b), c) == g.add(a, g.add(b, c)), f"{name} associative")
check(not GROUPS["Z4"].member(4), "Z4 rejects label 4")

# ---- auditor / snapshots on generated arrays and on corruptions of them
rng = random.Random(7)
lab = specs.LabelMaker(rng)
n_ok = n_bad = 0
for i in range(400):
    if len(lab.pool) < 5:
        lab = specs.LabelMaker(rng)
    sp = specs.gen_spec(rng, labels=lab, sparsity=rng.choice([0, 0.3]),
                        syms=("Z2", "U1", "Z2Z2", "U1U1", "Z4"),
                        sym=rng.choice(["Z2", "U1", "Z2Z2", "U1U1", "Z4"]))
    x = specs.build(sp)
    check(audit(x) == [], f"auditor quiet on valid array {sp['sym']}")
    check(S.snap(S.clone(x)) == S.snap(x), "clone identical")
    n_ok += 1
    if x.ndim == 0 or not x.blocks:
        continue
    g = GROUPS[sp["sym"]]
    y = S.clone(x)
    k = rng.randrange(5)
    if k == 0:      # wrong total charge
        bad = [c for c in specs.CHARGE_POOL[sp["sym"]] if c != y.charge]
        y._charge = rng.choice(bad)
        expect = "conservation"
    elif k == 1:    # wrong block shape
        s0 = next(iter(y.blocks))
        y.blocks[s0] = np.zeros(tuple(d + 1 for d in np.shape(y.blocks[s0])))
        expect = "block-shape"
    elif k == 2:    # non-positive size
        ix = y.indices[0]
        c0 = next(iter(ix.chargemap))
        ix.chargemap[c0] = 0
        expect = "index-size"
    elif k == 3 and sp["kind"] == "F":   # sign table value
        s0 = next(iter(y.blocks))
        y.phases[s0] = 2
        expect = "phase-value"
    elif k == 4 and sp["kind"] == "F":   # label parity
        y._oddpos = y.oddpos + (core.sr.FermionicOperator("zz"),)
        expect = "oddpos-parity"
    else:
        continue
    probs = audit(y)
    check(any(expect in r for r, _ in probs), f"auditor misses {expect}: {probs[:2]}")
    check(S.snap(y) != S.snap(x), f"snapshot misses {expect}")
    n_bad += 1

# fused-index bookkeeping
for i in range(200):
    sp = specs.gen_spec(rng, kind="A", ndim=3, labels=lab, syms=("U1", "Z2Z2"),
                        sym=rng.choice(["U1", "Z2Z2"]))
    x = specs.build(sp)
    if not x.blocks:
        continue
    f = x.fuse((0, 1))
    check(audit(f) == [], "auditor quiet on fused array")
    ix = f.indices[0]
    if ix.subinfo is None:
        continue
    c0 = next(iter(ix.subinfo.extents))
    ss = next(iter(ix.subinfo.extents[c0]))
    ix.subinfo.extents[c0][ss] += 1
    check(any("subinfo" in r for r, _ in audit(f)), "auditor misses broken extents")

print(f"observers: {n_ok} valid arrays quiet, {n_bad} corruptions noticed, {len(fails)} failures")
for f in fails[:10]:
    print("  FAIL", f)
sys.exit(1 if fails else 0)
