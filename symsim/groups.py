"""Independent implementation of the charge groups used by every oracle.

The library's ``symmetries.py`` is code under test and is never consulted by
the observers. Labels are used exactly as stored: no normalisation, so a
non-canonical label (e.g. ``4`` for Z4) can never satisfy an equation.
"""


class G:
    name = None

    def member(self, c):
        raise NotImplementedError

    def add(self, *cs):
        raise NotImplementedError

    def neg(self, c):
        raise NotImplementedError

    def parity(self, c):
        raise NotImplementedError

    @property
    def zero(self):
        return self.add()

    def signed(self, c, dual):
        return self.neg(c) if dual else c


def _isint(c):
    import numpy as np

    return isinstance(c, (int, np.integer)) and not isinstance(c, bool)


class GZ2(G):
    name = "Z2"

    def member(self, c):
        return _isint(c) and c in (0, 1)

    def add(self, *cs):
        t = 0
        for c in cs:
            t ^= int(c) & 1
        return t

    def neg(self, c):
        return int(c)

    def parity(self, c):
        return int(c) & 1


class GZ4(G):
    name = "Z4"

    def member(self, c):
        return _isint(c) and c in (0, 1, 2, 3)

    def add(self, *cs):
        t = 0
        for c in cs:
            t = (t + int(c)) % 4
        return t

    def neg(self, c):
        return (-int(c)) % 4

    def parity(self, c):
        return int(c) & 1


class GU1(G):
    name = "U1"

    def member(self, c):
        return _isint(c)

    def add(self, *cs):
        t = 0
        for c in cs:
            t += int(c)
        return t

    def neg(self, c):
        return -int(c)

    def parity(self, c):
        return int(c) & 1


class GZ2Z2(G):
    name = "Z2Z2"

    def member(self, c):
        return (
            isinstance(c, tuple)
            and len(c) == 2
            and all(_isint(x) and x in (0, 1) for x in c)
        )

    def add(self, *cs):
        a = b = 0
        for c in cs:
            a ^= int(c[0]) & 1
            b ^= int(c[1]) & 1
        return (a, b)

    def neg(self, c):
        return (int(c[0]), int(c[1]))

    def parity(self, c):
        return (int(c[0]) ^ int(c[1])) & 1


class GU1U1(G):
    name = "U1U1"

    def member(self, c):
        return isinstance(c, tuple) and len(c) == 2 and all(_isint(x) for x in c)

    def add(self, *cs):
        a = b = 0
        for c in cs:
            a += int(c[0])
            b += int(c[1])
        return (a, b)

    def neg(self, c):
        return (-int(c[0]), -int(c[1]))

    def parity(self, c):
        return (int(c[0]) + int(c[1])) & 1


GROUPS = {g.name: g for g in (GZ2(), GZ4(), GU1(), GZ2Z2(), GU1U1())}


def group_of(x):
    """Group of a symmray array, from the *name* of its symmetry class only."""
    return GROUPS[type(x.symmetry).__name__]


def norm_charge(c):
    """Normalise numpy ints to python ints (type of a charge may legitimately
    depend on history through shared lru slots)."""
    if isinstance(c, tuple):
        return tuple(norm_charge(x) for x in c)
    try:
        import numpy as np

        if isinstance(c, np.integer):
            return int(c)
    except Exception:
        pass
    return c
