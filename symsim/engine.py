"""Base class shared by the property engines.

A *program* is a JSON-able dict {"prop", "engine", "config", "steps"}; an
engine can ``generate`` one (executing it while it is generated, so that
every generated step is valid for the state it meets) and ``execute`` a
recorded one. Both go through the same ``exec_step``, so a replay is a pure
function of the program and the code.
"""

import collections
import os
import random

from . import core
from .core import Violation, HarnessError, EventLog, Streams


def load_known(path=None):
    """Parse known_findings.txt -> list of dict entries (finding: lines)."""
    path = path or os.path.join(core.VERIF, "known_findings.txt")
    out = []
    if not os.path.exists(path):
        return out
    for line in open(path):
        line = line.strip()
        if not line.startswith("finding:"):
            continue
        body = line[len("finding:"):].strip()
        ent = {"text": body}
        rest = []
        for tok in body.split():
            if "=" in tok and tok.split("=", 1)[0] in ("property", "oracle", "op", "when"):
                k, v = tok.split("=", 1)
                ent[k] = v
            else:
                rest.append(tok)
        ent["what"] = " ".join(rest)
        out.append(ent)
    return out


def match_known(known, prop, oracle, op, tags):
    for ent in known:
        if ent.get("property") != prop:
            continue
        if ent.get("oracle") != oracle:
            continue
        if ent.get("op") not in (op, "*"):
            continue
        w = ent.get("when", "always")
        if w == "always" or w in tags:
            return ent
    return None


class Outcome(dict):
    @property
    def violation(self):
        return self.get("violation")


class EngineBase:
    prop = None
    name = None

    def __init__(self, known=None):
        self.known = load_known() if known is None else known

    # -- to be provided by subclasses
    def make_config(self, streams, tier):
        raise NotImplementedError

    def start(self, config):
        """Reset the world and build the run state."""
        raise NotImplementedError

    def gen_macro(self, state, rng):
        """-> list of steps for the current state (generation only)."""
        raise NotImplementedError

    def exec_step(self, state, step):
        """Execute one step with all oracles; raise Violation."""
        raise NotImplementedError

    def finish(self, state):
        pass

    def n_macro(self, config):
        return config.get("n_macro", 12)

    # -- driving
    def _new_state(self, config):
        st = self.start(config)
        st.log = EventLog()
        st.stats = collections.Counter()
        st.findings = []
        st.known = self.known
        return st

    def _outcome(self, st, violation):
        self_stats = dict(st.stats)
        out = Outcome(
            violation=violation,
            stats=self_stats,
            digest=st.log.hexdigest(),
            findings=st.findings,
            progressed=self_stats.get("step.ok", 0),
            faults=sum(v for k, v in self_stats.items() if k.startswith("fault.")),
            states=sorted(getattr(st, "states", ())),
        )
        return out

    def _run_steps(self, st, steps, record=None):
        for step in steps:
            if record is not None:
                record.append(step)
            self.exec_step(st, step)

    def generate(self, seed, run, tier="quick"):
        streams = Streams(seed, run)
        config = self.make_config(streams, tier)
        config["seed"] = seed
        config["run"] = run
        program = {"prop": self.prop, "engine": self.name, "config": config,
                   "steps": []}
        st = self._new_state(config)
        rng = streams.get("gen")
        violation = None
        try:
            for _ in range(self.n_macro(config)):
                steps = self.gen_macro(st, rng)
                self._run_steps(st, steps, program["steps"])
            self.finish(st)
        except Violation as v:
            violation = {"oracle": v.oracle, "where": v.where, "detail": v.detail}
        return program, self._outcome(st, violation)

    def execute(self, program):
        st = self._new_state(program["config"])
        violation = None
        try:
            self._run_steps(st, program["steps"])
            self.finish(st)
        except Violation as v:
            violation = {"oracle": v.oracle, "where": v.where, "detail": v.detail}
        return self._outcome(st, violation)

    # -- helpers for subclasses
    def report(self, st, oracle, where, detail, tags=()):
        """Raise a Violation unless it matches a known finding, in which case
        it is recorded and the caller must discard the tainted results."""
        ent = match_known(st.known, self.prop, oracle, where, set(tags))
        if ent is not None:
            st.findings.append({"oracle": oracle, "op": where,
                                "when": ent.get("when", "always"),
                                "what": ent.get("what", ""), "detail": detail})
            st.stats["known." + oracle + "." + where] += 1
            return ent
        raise Violation(self.prop, oracle, where, detail)


class State:
    pass
